import sys, time
sys.path.insert(0,'/repo'); sys.path.insert(0,'/verif/design_probes')
import z3
from symx import *
import symx
def _mod(s, o):
    oe = symx._lift(o); return Sym(s.e - oe * z3.ToReal(z3.ToInt(s.e / oe)))
Sym.__mod__ = _mod
def _int(s):
    ctx = Ctx.cur; fl = z3.ToInt(s.e)
    for k in range(-2, 8):
        if ctx.decide(fl == k): return k
    raise Abort('int out of range')
Sym.__int__ = _int
Sym.__round__ = lambda s, n=None: s
from bardolph.controller import units
from bardolph.lib.param_helper import param_color
def run(ctx):
    h = Sym(ctx.fresh('h', z3.RealSort())); s = Sym(ctx.fresh('s', z3.RealSort())); b = Sym(ctx.fresh('b', z3.RealSort()))
    ctx.solver.add(h.e >= 0, h.e <= 360, s.e >= 0, s.e <= 100, b.e >= 0, b.e <= 100)
    direct = param_color(units.logical_to_raw([h, s, b, 2700]))
    rgb = units.logical_to_rgb([h, s, b, 2700])
    via = param_color(units.rgb_to_raw(rgb))
    return (h, s, b), direct, via
t0 = time.time(); n = 0; res = {}
for ctx, r in explore(run):
    n += 1
    if isinstance(r, BaseException): print('abort', r); continue
    (h, s, b), d, v = r
    ctx.solver.set('timeout', 10000)
    def L(x): return x.e if isinstance(x, Sym) else z3.RealVal(x)
    # colours equal as colours: if s or b raw == 0 hue immaterial; brightness 0 => sat immaterial
    diff = lambda i: z3.Or(L(d[i]) - L(v[i]) > z3.RealVal("1/2"), L(v[i]) - L(d[i]) > z3.RealVal("1/2"))
    huediff = z3.And(diff(0), z3.Not(z3.And(L(d[0]) - L(v[0]) >= 65534)), z3.Not(z3.And(L(v[0]) - L(d[0]) >= 65534)))
    bad = z3.Or(diff(2), z3.And(L(d[2]) > 0, diff(1)), z3.And(L(d[2]) > 0, L(d[1]) > 0, huediff))
    t1 = time.time(); r = ctx.check(bad); res[str(r)] = res.get(str(r), 0) + 1
    if str(r) != 'unsat' and res[str(r)] <= 3:
        print(n, r, round(time.time() - t1, 1), ctx.solver.model() if str(r) == 'sat' else '')
print(n, res, round(time.time() - t0, 1))
