import sys, time, colorsys
sys.path.insert(0,'/repo'); sys.path.insert(0,'/verif/design_probes')
import z3
from symx import *
import symx
# add missing ops quickly
def _mod(s, o):
    oe = symx._lift(o)
    return Sym(s.e - oe * z3.ToReal(z3.ToInt(s.e / oe)))
Sym.__mod__ = _mod
def _int(s):
    # concretize floor by forking over small range
    ctx = Ctx.cur
    fl = z3.ToInt(s.e)
    for k in range(-2, 8):
        if ctx.decide(fl == k): return k
    raise Abort('int out of range')
Sym.__int__ = _int
def _abs(s): return Sym(z3.If(s.e >= 0, s.e, -s.e))
Sym.__abs__ = _abs
from bardolph.controller import units

def run(ctx):
    h = Sym(ctx.fresh('h', z3.RealSort())); s = Sym(ctx.fresh('s', z3.RealSort())); b = Sym(ctx.fresh('b', z3.RealSort()))
    ctx.solver.add(h.e >= 0, h.e < 360, s.e > 0, s.e <= 100, b.e > 0, b.e <= 100)
    rgb = units.logical_to_rgb([h, s, b, 2700])
    back = units.rgb_to_logical(rgb)
    return (h, s, b), rgb, back

t0 = time.time(); n = 0; res = {}
for ctx, r in explore(run):
    n += 1
    if isinstance(r, BaseException):
        print('abort', r); continue
    (h, s, b), rgb, back = r
    t1 = time.time()
    ctx.solver.set('timeout', 20000)
    bad = z3.Or(*[z3.Or(back[i].e - x.e > z3.RealVal('1/1000'), x.e - back[i].e > z3.RealVal('1/1000')) for i, x in enumerate((h, s, b))])
    v = ctx.check(bad)
    res[str(v)] = res.get(str(v), 0) + 1
    print(n, len(ctx.trail), v, round(time.time() - t1, 2))
print(n, res, time.time() - t0)
