from bardolph.lib.time_pattern import TimePattern

def spec_hours_valid(h: str) -> bool:
    if h == '*': return True
    if len(h) == 1: return h.isdigit()
    if len(h) != 2: return False
    a, b = h[0], h[1]
    if a == '*' and b == '*': return False
    if a == '*': return b.isdigit()          # *0..*9  (e.g. *9 -> 09,19)
    if b == '*': return a in '012'
    return a.isdigit() and b.isdigit() and int(h) <= 23

def chk_hours_valid(h: str) -> bool:
    """
    pre: 1 <= len(h) <= 2
    pre: all(c in '0123456789*' for c in h)
    post: _
    """
    return TimePattern.hours_valid(h) == spec_hours_valid(h)

def chk_number_match(p: str, n: int) -> bool:
    """
    pre: len(p) == 2 and 0 <= n < 60
    pre: all(c in '0123456789*' for c in p)
    post: _
    """
    f = "{:02d}".format(n)
    spec = (p[0] == '*' or p[0] == f[0]) and (p[1] == '*' or p[1] == f[1])
    return TimePattern._number_match(n, p) == spec
