import sys, time as _t
sys.path.insert(0,'/repo'); sys.path.insert(0,'/verif/design_probes')
import z3
from symx import *
import bardolph.lib.clock as clock_mod
R = z3.RealSort()
class VTime:
    """symbolic non-decreasing time source"""
    def __init__(s, ctx): s.ctx = ctx; s.now = Sym(ctx.fresh('t0', R)); s.reads = []
    def time(s): s.reads.append(s.now); return s.now
    def advance(s, name, lo=None):
        d = Sym(s.ctx.fresh(name, R)); s.ctx.solver.add(d.e >= 0)
        s.now = s.now + d; return d
class Ev:
    def __init__(s, vt, tick): s.vt = vt; s.tick = tick; s.waits = 0
    def wait(s):
        s.waits += 1
        if s.waits > 4: raise Abort('tick bound')
        # next tick: time advances by arbitrary amount in (0, tick]
        d = s.vt.advance('tk'); s.vt.ctx.solver.add(d.e > 0, d.e <= s.tick.e)
    def set(s): pass
    def clear(s): pass
def run(ctx):
    vt = VTime(ctx); clock_mod.time = vt
    tick = Sym(ctx.fresh('tick', R)); ctx.solver.add(tick.e > 0)
    c = clock_mod.Clock(); c._event = Ev(vt, tick)
    c.reset(); start = vt.now
    ds = [Sym(ctx.fresh('d%d' % i, R)) for i in range(2)]
    for d in ds: ctx.solver.add(d.e >= 0)
    rets = []
    for i, d in enumerate(ds):
        w = vt.advance('w%d' % i)         # work before the delay
        before = c._event.waits; c._event.waits = 0
        c.pause_for(d)
        rets.append((vt.now, c._event.waits))
    return start, ds, rets, tick
n = 0; bad = 0; t0 = _t.time(); ob = 0
for ctx, r in explore(run):
    if isinstance(r, BaseException): ob += 1; continue
    n += 1
    start, ds, rets, tick = r
    tot = 0
    for i, (tret, waits) in enumerate(rets):
        tot = tot + ds[i].e if i else ds[i].e
        # never early
        if ctx.check(tret.e - start.e < tot) != z3.unsat: bad += 1; print('EARLY', ctx.solver.model())
print('paths', n, 'outofbound', ob, 'bad', bad, round(_t.time() - t0, 2))
