from bardolph.lib.time_pattern import TimePattern

def fm(p: str, s: str) -> bool:
    if p == '*':
        return True
    if len(p) != len(s):
        return False
    return (p[0] == '*' or p[0] == s[0]) and (p[1] == '*' or p[1] == s[1])

def chk_minute(mp: str, m: int) -> bool:
    """
    pre: len(mp) == 2 and 0 <= m < 60
    pre: mp[0] in '0123456789*' and mp[1] in '0123456789*'
    pre: TimePattern.minutes_valid(mp)
    post: _
    """
    tp = TimePattern('*', mp)
    return (m in tp._minute_set) == fm(mp, "{:02d}".format(m))
