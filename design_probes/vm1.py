import sys, time, logging
sys.path.insert(0, '/repo'); sys.path.insert(0, '/verif/design_probes')
import z3
from symx import *
from tests import test_module
from bardolph.parser.parse import Parser
from bardolph.vm.machine import Machine
from bardolph.vm.vm_codes import OpCode
from bardolph.controller import i_controller
from bardolph.lib.injection import provide
from bardolph.fakes.activity_monitor import Action

SCRIPT = '''
assign x 900001
assign n 900002
hue 10
repeat n begin
  if {x > 5} begin hue {hue + x} set "Top" end
  else begin hue {hue * 2} set "Bottom" end
  assign x {x - 3}
end
duration 900003
on group "Pole"
'''
test_module.configure()
logging.getLogger().setLevel(logging.CRITICAL)
p = Parser()
assert p.parse(SCRIPT), p.get_errors()
prog = p.get_program()
sent = {}
for inst in prog:
    if isinstance(inst.param0, int) and inst.param0 >= 900000:
        sent[inst.param0] = inst

def run(ctx):
    test_module.configure()
    logging.getLogger().setLevel(logging.CRITICAL)
    x = Sym(ctx.fresh('x', z3.RealSort()))
    n = Sym(ctx.fresh('n', z3.RealSort()))
    d = Sym(ctx.fresh('d', z3.RealSort()))
    ni = ctx.fresh('ni', z3.IntSort())
    ctx.solver.add(n.e == z3.ToReal(ni), ni >= 0, ni <= 3, x.e >= -10, x.e <= 20, d.e >= 0, d.e <= 100)
    sent[900001].param0 = x; sent[900002].param0 = n; sent[900003].param0 = d
    m = Machine(); m.reset(); m.run(prog)
    api = provide(i_controller.LightApi)
    calls = []
    for l in api.get_lights():
        for c in l.get_call_list():
            calls.append((l.get_name(), c))
    return m._reg.pc, calls

t = time.time(); np = 0; q = 0
for ctx, res in explore(run):
    np += 1; q += ctx.queries
    if np <= 12 or isinstance(res, BaseException):
        print(len(ctx.trail), res if isinstance(res, BaseException) else (res[0], [(n, c[0].name, c[1:]) for n, c in res[1]][:4]))
print('paths', np, 'queries', q, 'time', time.time() - t)
