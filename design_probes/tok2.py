import sys, time, logging, collections
sys.path.insert(0, '/repo')
from tests import test_module
import bardolph.parser.parse as parse_mod
from bardolph.parser.parse import Parser
from bardolph.parser.lex import Lex
from bardolph.parser.token import Token, TokenTypes
test_module.configure()
words = ['all','and','as','assign','at','begin','break','breakpoint','column','cycle','default','define','else','end','from','get','group','if','in','location','logical','not','null','off','on','or','print','printf','println','pause','raw','row','repeat','return','rgb','set','stage','to','units','while','with','wait','zone',
 'hue','time','duration','v','f','m','u','1','2.5','"s"','"{} {x}"','1:00','<','==','{','}','[',']','(',')','+','-','*','/','^','%',':','@','number','eof','error','unknown','mark','name']
alpha = [list(Lex(w).tokens())[0] for w in words]
PRE = 'define m 5 assign v 1 define f with a return a '
class Lazy(Lex):
    N = 3
    cur = None
    def tokens(self):
        for t in Lex.tokens(self):
            if t.is_a(TokenTypes.EOF): break
            yield t
        st = Lazy.cur
        for i in range(Lazy.N):
            k = st.choose(len(alpha))
            t = alpha[k]
            yield Token(t.token_type, t.content, 2 + i)
        yield Token(TokenTypes.EOF)
class St:
    def __init__(s, pre): s.pre = pre; s.trail = []
    def choose(s, n):
        i = len(s.trail); k = s.pre[i] if i < len(s.pre) else 0
        s.trail.append((k, n)); return k
parse_mod.Lex = Lazy
def run(N):
    Lazy.N = N
    stack = [[]]; stats = collections.Counter(); ex = {}
    t0 = time.time(); n = 0
    while stack:
        pre = stack.pop(); st = St(pre); Lazy.cur = st
        p = Parser()
        try:
            ok = p.parse(PRE)
            r = 'ok' if ok else ('rej' if 'Line ' in p.get_errors() else 'SILENT')
        except Exception as e:
            r = 'CRASH:' + type(e).__name__
        n += 1; stats[r] += 1
        ex.setdefault(r, ' '.join(words[k] for k, _ in st.trail))
        for i in range(len(pre), len(st.trail)):
            k, m = st.trail[i]
            for a in range(k + 1, m): stack.append([c for c, _ in st.trail[:i]] + [a])
    print(N, 'paths', n, dict(stats), round(time.time() - t0, 1), 's'); print(ex)
for N in (1, 2, 3): run(N)
