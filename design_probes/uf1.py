import sys, time, itertools, logging
sys.path.insert(0,'/repo'); sys.path.insert(0,'/verif/design_probes')
import z3
from tests import test_module
from bardolph.parser.parse import Parser
from bardolph.vm.machine import Machine
T = z3.DeclareSort('T')
OPS = ['+','-','*','/','%','^','<','<=','>','>=','==','!=','and','or']
uf = {op: z3.Function('f_'+op.replace('<','lt').replace('>','gt').replace('=','e').replace('!','n').replace('+','add').replace('-','sub').replace('*','mul').replace('/','div').replace('%','mod').replace('^','pow'), T, T, T) for op in OPS}
truthy = z3.Function('truthy', T, z3.BoolSort()); ofbool = z3.Function('ofbool', z3.BoolSort(), T); ofint = z3.Function('ofint', z3.IntSort(), T)
def lift(x):
    if isinstance(x, Term): return x.e
    if isinstance(x, bool): return ofbool(z3.BoolVal(x))
    if isinstance(x, int): return ofint(z3.IntVal(x))
    raise TypeError
class Term:
    def __init__(s, e): s.e = e
    def _b(s, o, op, sw=False):
        a, b = (lift(o), s.e) if sw else (s.e, lift(o)); return Term(uf[op](a, b))
    __add__ = lambda s,o: s._b(o,'+'); __radd__ = lambda s,o: s._b(o,'+',True)
    __sub__ = lambda s,o: s._b(o,'-'); __rsub__ = lambda s,o: s._b(o,'-',True)
    __mul__ = lambda s,o: s._b(o,'*'); __rmul__ = lambda s,o: s._b(o,'*',True)
    __truediv__ = lambda s,o: s._b(o,'/'); __rtruediv__ = lambda s,o: s._b(o,'/',True)
    __mod__ = lambda s,o: s._b(o,'%'); __rmod__ = lambda s,o: s._b(o,'%',True)
    __pow__ = lambda s,o: s._b(o,'^'); __rpow__ = lambda s,o: s._b(o,'^',True)
    __lt__ = lambda s,o: s._b(o,'<'); __le__ = lambda s,o: s._b(o,'<=')
    __gt__ = lambda s,o: s._b(o,'>'); __ge__ = lambda s,o: s._b(o,'>=')
    __eq__ = lambda s,o: s._b(o,'=='); __ne__ = lambda s,o: s._b(o,'!=')
    __hash__ = None
    def __bool__(s): return DEC.decide(truthy(s.e))
class Dec:
    def __init__(s, pre): s.pre = pre; s.trail = []; s.pc = []
    def decide(s, c):
        i = len(s.trail); v = s.pre[i] if i < len(s.pre) else True
        s.trail.append(v); s.pc.append(c if v else z3.Not(c)); return v
# reference: precedence climbing from the documented table
PREC = {'or':1,'and':2,'<':3,'<=':3,'>':3,'>=':3,'==':3,'!=':3,'+':4,'-':4,'*':5,'/':5,'%':5,'^':6}
def ref(ops, xs):
    pos = [0]
    def atom():
        v = xs[pos[0]]; return v
    def expr(minp):
        lhs = xs[pos[0]]
        while pos[0] < len(ops) and PREC[ops[pos[0]]] >= minp:
            op = ops[pos[0]]; pos[0] += 1
            rhs = expr(PREC[op] + (0 if op == '^' else 1))
            if op in ('and','or'):
                a, b = truthy(lhs), truthy(rhs)
                lhs = ofbool(z3.And(a,b) if op=='and' else z3.Or(a,b))
            else: lhs = uf[op](lhs, rhs)
        return lhs
    return expr(0)
test_module.configure(); logging.getLogger().setLevel(logging.CRITICAL)
from bardolph.vm.vm_codes import OpCode
def check(ops):
    names = ['a','b','c','d','e'][:len(ops)+1]
    src = ' '.join('assign %s %d' % (n, 900001+i) for i, n in enumerate(names)) + ' assign r {' + ' '.join(x for pair in zip(names, list(ops)+['']) for x in pair) + '}'
    p = Parser()
    if not p.parse(src): return 'nocompile ' + src + p.get_errors()
    prog = p.get_program()
    xs = [z3.Const(n, T) for n in names]
    for inst in prog:
        if isinstance(inst.param0, int) and inst.param0 >= 900000: inst.param0 = Term(xs[inst.param0 - 900001])
    global DEC
    stack = [[]]; res = 'ok'
    while stack:
        pre = stack.pop(); DEC = Dec(pre)
        for inst, x in zip([i for i in prog if i.op_code is OpCode.MOVEQ], xs): inst.param0 = Term(x)
        m = Machine(); m.reset(); m.run(prog)
        got = m.get_variable('r')
        for i in range(len(pre), len(DEC.trail)):
            if DEC.trail[i]: stack.append(DEC.trail[:i] + [False])
        s = z3.Solver(); s.add(*DEC.pc)
        if s.check() == z3.unsat: continue
        exp = ref(list(ops), xs)
        g = lift(got)
        s.add(g != exp)
        if s.check() != z3.unsat: return 'MISMATCH %s got %s exp %s' % (src, g, exp)
    return res
t0 = time.time(); n = 0; bad = []
for ops in itertools.product(OPS, repeat=2):
    r = check(ops); n += 1
    if r != 'ok': bad.append(r)
print(n, 'exprs', len(bad), 'bad', round(time.time()-t0,1)); print(bad[:6])
