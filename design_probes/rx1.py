import sys, time
sys.path.insert(0,'/repo')
import z3, re
import re._parser as sp, re._constants as sc
from bardolph.parser.lex import Lex
from bardolph.parser.token import TokenTypes

def cls_item(op, av):
    if op is sc.LITERAL: return z3.Re(chr(av))
    if op is sc.RANGE: return z3.Range(chr(av[0]), chr(av[1]))
    if op is sc.CATEGORY:
        if av is sc.CATEGORY_DIGIT: return z3.Range('0','9')
        if av is sc.CATEGORY_SPACE: return z3.Union(*[z3.Re(c) for c in ' \t\n\r\x0b\x0c'])
    raise NotImplementedError((op, av))
ANY = z3.Range(chr(0), chr(0x7f))   # ASCII bound
def tr(seq):
    parts = []
    for op, av in seq:
        if op is sc.LITERAL: parts.append(z3.Re(chr(av)))
        elif op is sc.NOT_LITERAL: parts.append(z3.Intersect(ANY, z3.Complement(z3.Re(chr(av)))))
        elif op is sc.IN:
            neg = av and av[0][0] is sc.NEGATE
            items = [cls_item(o, a) for o, a in av if o is not sc.NEGATE]
            u = items[0] if len(items) == 1 else z3.Union(*items)
            parts.append(z3.Intersect(ANY, z3.Complement(u)) if neg else u)
        elif op is sc.MAX_REPEAT:
            lo, hi, sub = av; r = tr(sub)
            if hi is sc.MAXREPEAT:
                parts.append(z3.Star(r) if lo == 0 else (z3.Plus(r) if lo == 1 else z3.Concat(*([r]*lo + [z3.Star(r)]))))
            else: parts.append(z3.Loop(r, lo, hi))
        elif op is sc.BRANCH:
            parts.append(z3.Union(*[tr(b) for b in av[1]]))
        elif op is sc.SUBPATTERN: parts.append(tr(av[3]))
        elif op is sc.ANY: parts.append(ANY)
        else: raise NotImplementedError(op)
    if not parts: return z3.Re('')
    return parts[0] if len(parts) == 1 else z3.Concat(*parts)

NAME = tr(sp.parse(Lex._NAME_SPEC))
NUMBER = tr(sp.parse(Lex._NUMBER_SPEC))
CMP = tr(sp.parse(Lex._CMP_SPEC))
def ci(word): return z3.Concat(*[z3.Union(z3.Re(c.lower()), z3.Re(c.upper())) if c.isalpha() else z3.Re(c) for c in word]) if len(word) > 1 else z3.Re(word)
members = list(TokenTypes.__members__)
MEMB = z3.Union(*[ci(m) for m in members])
documented = ['all','and','as','assign','at','begin','break','column','cycle','default','define','else','end','from','get','group','if','in','location','logical','not','off','on','or','print','printf','println','pause','raw','row','repeat','return','rgb','set','stage','to','units','while','with','wait','zone'] + Lex._REG_LIST + ['H','S','B','K']
DOC = z3.Union(*[z3.Re(w) for w in documented])
s = z3.String('s')
sol = z3.Solver()
sol.add(z3.InRe(s, NAME), z3.Length(s) <= 8, z3.Not(z3.InRe(s, DOC)), z3.InRe(s, MEMB))
t = time.time(); found = []
while sol.check() == z3.sat and len(found) < 8:
    v = sol.model()[s].as_string(); found.append(v); sol.add(s != v)
print(found, time.time() - t)
# disjointness: can an earlier alternative match a prefix of an identifier at pos 0?
sol2 = z3.Solver(); sol2.add(z3.InRe(s, NAME), z3.InRe(s, z3.Concat(z3.Union(CMP, NUMBER), z3.Star(ANY))))
t = time.time(); print(sol2.check(), time.time() - t)
