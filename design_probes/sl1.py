import sys, time
sys.path.insert(0,'/repo'); sys.path.insert(0,'/verif/design_probes')
import z3
from symx import *
from bardolph.lib.sorted_list import SortedList
def run(ctx, n=3):
    xs = [Sym(ctx.fresh('x%d' % i, z3.RealSort())) for i in range(n)]
    v = Sym(ctx.fresh('v', z3.RealSort()))
    for a, b in zip(xs, xs[1:]): ctx.solver.add(a.e < b.e)
    sl = SortedList(); list.extend(sl, xs)
    nx = sl.next(v); pv = sl.prev(v)
    return xs, v, nx, pv
t0=time.time(); n=0; bad=0
for ctx, (xs, v, nx, pv) in explore(run):
    n += 1
    # spec: next = min{x > v}, prev = max{x < v}
    gt = [x for x in xs]
    conds = []
    if nx is None: conds.append(z3.And(*[x.e <= v.e for x in xs]))
    else: conds.append(z3.And(nx.e > v.e, *[z3.Or(x.e <= v.e, x.e >= nx.e) for x in xs]))
    if pv is None: conds.append(z3.And(*[x.e >= v.e for x in xs]))
    else: conds.append(z3.And(pv.e < v.e, *[z3.Or(x.e >= v.e, x.e <= pv.e) for x in xs]))
    if ctx.check(z3.Not(z3.And(*conds))) != z3.unsat: bad += 1
print('paths', n, 'bad', bad, time.time()-t0)
