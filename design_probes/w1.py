import sys, logging
sys.path.insert(0,'/repo')
import lifxlan, inspect
print(inspect.getsource(lifxlan.LifxLAN.__init__)[:1200])
from lifxlan.errors import WorkflowException
from bardolph.lib import injection, settings, i_lib
from bardolph.controller import lifx_lan_api, light_set, i_controller
injection.configure()
settings.using({'single_light_discover': True, 'default_num_lights': None, 'light_gc_time': 300}).configure()
class Impl:
    def __init__(s, label, group, loc, feats): s.l, s.g, s.o, s.f = label, group, loc, feats; s.calls = []
    def get_label(s): return s.l
    def get_group(s): return s.g
    def get_location(s): return s.o
    def get_product_features(s): return s.f
    def get_product_name(s): return 'x'
    def set_color(s, c, d, r): s.calls.append(('set_color', c, d, r))
    def set_power(s, p, d, r): s.calls.append(('set_power', p, d, r))
    def get_color_zones(s, a=None, b=None): return [[0,0,0,0]]*8
    def set_zone_color(s, a, b, c, d): s.calls.append(('zone', a, b, c, d))
api = lifx_lan_api.LifxLanApi()
class Lan:
    def get_lights(s): return impls
    def set_color_all_lights(s, *a): calls.append(a)
    def set_power_all_lights(s, *a): calls.append(a)
calls = []
impls = [Impl('Top','Pole','Home',{}), Impl('Strip','F','Home',{'multizone':True})]
api._lifxlan = Lan()
injection.bind_instance(api).to(i_controller.LightApi)
ls = light_set.LightSet(); print(ls.discover(), ls.get_light_names(), ls.get_group_names())
ls.get_light('Top').set_color([1.4, 70000, -3, 2700], 1500.6)
ls.get_light('Strip').set_zone_colors(2, 5, [1,2,3,4], 0)
print(impls[0].calls, impls[1].calls)
