"""Prototype: stop request vs real Machine + real Clock under the deterministic scheduler."""
import sys, time as _time, collections, logging
sys.path.insert(0, '/repo'); sys.path.insert(0, '/verif/design_probes')
import sched2 as sc
from sched2 import Sched, SimT, Kill, traced
import bardolph.lib.job_control as jc_mod
import bardolph.lib.clock as clock_mod
import bardolph.vm.machine as machine_mod
from bardolph.lib import injection, settings, i_lib
from bardolph.controller import i_controller, light_set
from bardolph.fakes import fake_light_api
from bardolph.runtime import runtime_module
from bardolph.controller.script_job import ScriptJob

class ShimEvent:
    def __init__(self): self.flag = False; self.gen = 0
    def set(self): sc.S.yield_point('ev.set'); self.flag = True; self.gen += 1
    def clear(self): sc.S.yield_point('ev.clear'); self.flag = False
    def wait(self, timeout=None):
        sc.S.yield_point('ev.wait')
        if self.flag: return True
        g = self.gen
        sc.S.block(lambda: self.gen != g)
        return True
class ShimTime:
    now = 0.0
    @staticmethod
    def time(): return ShimTime.now
    @staticmethod
    def sleep(d):
        sc.S.yield_point('sleep'); ShimTime.now += d; sc.S.yield_point('woke')
class ShimThreading2(sc.ShimThreading):
    Event = ShimEvent

def scenario(choices, script, stopper):
    sc.S = S = Sched(choices); S.max_preempts = 2
    S.cur = None
    ShimTime.now = 0.0
    jc_mod.threading = ShimThreading2; clock_mod.threading = ShimThreading2; clock_mod.time = ShimTime
    injection.configure()
    settings.using({'sleep_time': 0.5, 'single_light_discover': True, 'use_fakes': True, 'log_level': logging.CRITICAL}).configure()
    TClock = traced(clock_mod.Clock, ['_keep_going'])
    injection.bind(TClock).to(i_lib.Clock)
    fake_light_api.using_small_set().configure(); light_set.configure(); runtime_module.configure()
    from bardolph.lib import object_list_output; object_list_output.configure()
    TMachine = traced(machine_mod.Machine, ['_keep_running'])
    import bardolph.controller.script_job as sj
    sj.Machine = TMachine
    JC = traced(jc_mod.JobControl, ['_queue', '_active_agent', '_background'])
    jc = JC()
    job = ScriptJob.from_string(script)
    api = injection.provide(i_controller.LightApi)
    marks = {}
    def client():
        jc.add_job(job, 'j')
        stopper(jc)
        marks['stop_returned_calls'] = len(api.get_call_list())
    S.spawn(client, 'client').start()
    dead = S.run()
    return S, dead, api.get_call_list(), marks

def dfs(script, stopper, limit=20000):
    stack = [[]]; n = 0; res = collections.Counter(); ex = {}
    t0 = _time.time()
    while stack and n < limit:
        pre = stack.pop()
        S_, dead, calls, marks = scenario(pre, script, stopper)
        n += 1
        excs = [type(t.exc).__name__ for t in S_.threads if t.exc is not None]
        hung = [t.name for t in dead if t.name != 'clock']
        after = len(calls) - marks.get('stop_returned_calls', len(calls))
        key = ('HANG' if (hung or S_.steps > 400) else 'ok') + ('' if not excs else ' EXC:' + ','.join(excs)) + (' late%d' % after if after > 1 else '')
        res[key] += 1; ex.setdefault(key, pre)
        tr = S_.trail
        for i in range(len(pre), len(tr)):
            k, m = tr[i]
            for alt in range(k + 1, m): stack.append([c for c, _ in tr[:i]] + [alt])
    print('schedules', n, dict(res), round(_time.time() - t0, 1), 's')
    for k, v in ex.items():
        if k != 'ok': print('  example', k, v)

logging.disable(logging.CRITICAL)
dfs("time 1 on all off all on all", lambda jc: jc.stop_job("j"), limit=int(sys.argv[1]) if len(sys.argv) > 1 else 20000)
