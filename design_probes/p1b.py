from bardolph.lib.param_helper import param_16
def chk_p16_float(x: float) -> int:
    """
    pre: -1e9 < x < 1e9
    post: 0 <= _ <= 65535
    """
    return param_16(x)
