"""Prototype: proxy-based DFS symbolic executor (ints/reals/bools) on z3."""
import z3, time, operator

class Abort(BaseException): pass      # infeasible / bound exceeded
class PathDone(BaseException): pass

class Ctx:
    cur = None
    def __init__(self, timeout_ms=2000):
        self.solver = z3.Solver()
        self.solver.set('timeout', timeout_ms)
        self.prefix = []      # decisions to replay
        self.trail = []       # decisions made on this path (bool, flippable)
        self.pc = []
        self.nvars = 0
        self.queries = 0
        self.qtime = 0.0
    def fresh(self, name, sort):
        self.nvars += 1
        return z3.Const('%s!%d' % (name, self.nvars), sort)
    def check(self, *extra):
        self.queries += 1
        t = time.time()
        r = self.solver.check(*extra)
        self.qtime += time.time() - t
        return r
    def decide(self, cond):
        """cond: z3 Bool. returns python bool, records decision."""
        cond = z3.simplify(cond)
        if z3.is_true(cond): return True
        if z3.is_false(cond): return False
        i = len(self.trail)
        if i < len(self.prefix):
            val = self.prefix[i]
            self.trail.append((val, False))   # replayed; flippability decided originally
        else:
            can_t = self.check(cond) != z3.unsat
            can_f = self.check(z3.Not(cond)) != z3.unsat
            if can_t and can_f:
                val = True; self.trail.append((True, True))
            elif can_t:
                val = True; self.trail.append((True, False))
            elif can_f:
                val = False; self.trail.append((False, False))
            else:
                raise Abort('infeasible')
        c = cond if val else z3.Not(cond)
        self.solver.add(c); self.pc.append(c)
        return val

def explore(fn, max_paths=100000):
    """fn(ctx) runs one path. yields (ctx, result|exception) per path."""
    prefix = []
    flippable = []
    n = 0
    while True:
        ctx = Ctx(); ctx.prefix = list(prefix); Ctx.cur = ctx
        # when replaying, flippable flags come from saved list
        try:
            res = fn(ctx)
        except Abort as e:
            res = e
        n += 1
        # merge flippable info
        tr = ctx.trail
        flags = flippable[:len(prefix)] + [f for (_, f) in tr[len(prefix):]]
        vals = [v for (v, _) in tr]
        yield ctx, res
        # backtrack: find last flippable True decision
        i = len(vals) - 1
        while i >= 0 and not (flags[i] and vals[i] is True):
            i -= 1
        if i < 0 or n >= max_paths:
            return
        prefix = vals[:i] + [False]
        flippable = flags[:i] + [False]

def _lift(x):
    if isinstance(x, Sym): return x.e
    if isinstance(x, bool): return z3.RealVal(1 if x else 0)
    if isinstance(x, int): return z3.RealVal(x)
    if isinstance(x, float): return z3.RealVal(repr(x))
    raise TypeError(type(x))

class Sym:
    """numeric value as z3 Real (ints embedded)."""
    __slots__ = ('e', 'is_int')
    def __init__(self, e, is_int=False): self.e = e; self.is_int = is_int
    def _bin(self, o, f, swap=False):
        try: oe = _lift(o)
        except TypeError: return NotImplemented
        a, b = (oe, self.e) if swap else (self.e, oe)
        return Sym(f(a, b))
    def __add__(s, o): return s._bin(o, operator.add)
    def __radd__(s, o): return s._bin(o, operator.add, True)
    def __sub__(s, o): return s._bin(o, operator.sub)
    def __rsub__(s, o): return s._bin(o, operator.sub, True)
    def __mul__(s, o): return s._bin(o, operator.mul)
    def __rmul__(s, o): return s._bin(o, operator.mul, True)
    def __truediv__(s, o):
        oe = _lift(o)
        if Ctx.cur.decide(oe == 0): raise ZeroDivisionError
        return Sym(s.e / oe)
    def __rtruediv__(s, o):
        if Ctx.cur.decide(s.e == 0): raise ZeroDivisionError
        return Sym(_lift(o) / s.e)
    def __neg__(s): return Sym(-s.e)
    def _cmp(s, o, f):
        try: oe = _lift(o)
        except TypeError: return NotImplemented
        return SymBool(f(s.e, oe))
    def __lt__(s, o): return s._cmp(o, operator.lt)
    def __le__(s, o): return s._cmp(o, operator.le)
    def __gt__(s, o): return s._cmp(o, operator.gt)
    def __ge__(s, o): return s._cmp(o, operator.ge)
    def __eq__(s, o):
        try: oe = _lift(o)
        except TypeError: return False
        return SymBool(s.e == oe)
    def __ne__(s, o):
        try: oe = _lift(o)
        except TypeError: return True
        return SymBool(s.e != oe)
    def __bool__(s): return Ctx.cur.decide(s.e != 0)
    def __hash__(s): raise TypeError('hash of symbolic')
    def __round__(s, n=None):
        # round half even to int
        fl = z3.ToReal(z3.ToInt(s.e))
        d = s.e - fl
        even = (z3.ToInt(s.e) % 2 == 0)
        r = z3.If(d < z3.RealVal('1/2'), fl, z3.If(d > z3.RealVal('1/2'), fl + 1, z3.If(even, fl, fl + 1)))
        return Sym(r, True)
    def __repr__(s): return 'Sym(%s)' % s.e

class SymBool:
    __slots__ = ('b',)
    def __init__(self, b): self.b = b
    def __bool__(s): return Ctx.cur.decide(s.b)
    def __repr__(s): return 'SymBool(%s)' % s.b
    def __eq__(s, o):
        if isinstance(o, SymBool): return SymBool(s.b == o.b)
        if isinstance(o, bool): return SymBool(s.b if o else z3.Not(s.b))
        return False
    def __hash__(s): raise TypeError
