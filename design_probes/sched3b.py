import sys
sys.argv = ['x', '0']
import sched3
from sched3 import *
S_, dead, calls, marks = scenario([], 'time 1 on all off all on all', lambda jc: jc.stop_job('j'))
print('steps', S_.steps, 'dead', [(t.name, t.blocked_on is not None) for t in dead], 'threads', [(t.name, t.done, type(t.exc).__name__ if t.exc else None) for t in S_.threads])
print('calls', calls, marks, 'now', ShimTime.now)
