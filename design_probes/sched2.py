"""Prototype deterministic scheduler for real JobControl code."""
import sys, threading as _rt, time, collections
sys.path.insert(0, '/repo')
import bardolph.lib.job_control as jc_mod

class Kill(BaseException): pass

class Sched:
    def __init__(self, choices):
        self.choices = list(choices)   # replay prefix
        self.trail = []                # (chosen_index, n_options)
        self.threads = []              # SimThread objects (incl. clients)
        self.cur = None
        self.main_sem = _rt.Semaphore(0)
        self.preempts = 0
        self.max_preempts = 2
        self.killed = False
        self.steps = 0
        self.log = []
    def spawn(self, fn, name):
        t = SimT(self, fn, name); self.threads.append(t); return t
    def runnable(self):
        return [t for t in self.threads if t.started and not t.done and t.blocked_on is None]
    def choose(self, opts, prefer):
        # returns chosen thread; counts preemption if prefer in opts and chosen != prefer
        if len(opts) == 1: return opts[0]
        if prefer in opts and self.preempts >= self.max_preempts: return prefer
        order = ([prefer] + [o for o in opts if o is not prefer]) if prefer in opts else opts
        i = len(self.trail)
        k = self.choices[i] if i < len(self.choices) else 0
        self.trail.append((k, len(order)))
        ch = order[k]
        if prefer in opts and ch is not prefer: self.preempts += 1
        return ch
    def run(self):
        while True:
            # unblock
            for t in self.threads:
                if t.blocked_on is not None and t.blocked_on():
                    t.blocked_on = None
            opts = self.runnable()
            if not opts: break
            self.steps += 1
            if self.steps > 400: self.killed = True; break
            t = self.choose(opts, self.cur if (self.cur in opts) else None)
            self.cur = t
            t.sem.release(); self.main_sem.acquire()
        dead = [t for t in self.threads if t.started and not t.done]
        self.killed = True
        for t in dead:
            t.sem.release(); self.main_sem.acquire()
        return dead
    def yield_point(self, what=None):
        t = self.cur
        if t is None or _rt.current_thread() is not t.os: return
        self.main_sem.release(); t.sem.acquire()
        if self.killed: raise Kill()
    def block(self, pred):
        t = self.cur; t.blocked_on = pred
        self.main_sem.release(); t.sem.acquire()
        if self.killed: raise Kill()

class SimT:
    def __init__(self, s, fn, name):
        self.s = s; self.fn = fn; self.name = name; self.started = False; self.done = False
        self.blocked_on = None; self.sem = _rt.Semaphore(0); self.exc = None
        self.os = _rt.Thread(target=self._run, daemon=True)
    def start(self):
        self.started = True; self.os.start()
    def _run(self):
        self.sem.acquire()
        try:
            if not self.s.killed: self.fn()
        except Kill: pass
        except BaseException as e: self.exc = e
        self.done = True
        self.s.main_sem.release()
    def is_alive(self): return self.started and not self.done

S = None
class ShimThread:
    def __init__(self, target=None, args=(), daemon=None, name=None):
        self.t = S.spawn(lambda: target(*args), 'job')
    def start(self):
        S.yield_point('thread.start'); self.t.start()
    def is_alive(self): return self.t.is_alive()
class ShimRLock:
    def __init__(self): self.owner = None; self.count = 0
    def acquire(self, blocking=True, timeout=-1):
        S.yield_point('lock.acquire')
        me = S.cur
        while self.owner is not None and self.owner is not me:
            S.block(lambda: self.owner is None)
            me = S.cur
        self.owner = me; self.count += 1; return True
    def release(self):
        assert self.owner is S.cur
        self.count -= 1
        if self.count == 0: self.owner = None
        S.yield_point('lock.release')
class ShimThreading:
    Thread = ShimThread; RLock = ShimRLock

def traced(cls, fields):
    ns = {}
    for f in fields:
        def g(self, f=f): S.yield_point(('r', f)); return self.__dict__['$' + f]
        def st(self, v, f=f): S.yield_point(('w', f)); self.__dict__['$' + f] = v
        ns[f] = property(g, st)
    return type('Traced' + cls.__name__, (cls,), ns)

def scenario(choices):
    global S
    S = Sched(choices)
    jc_mod.threading = ShimThreading
    JC = traced(jc_mod.JobControl, ['_queue', '_active_agent', '_background'])
    events = []
    running = [0]; maxrun = [0]
    class J(jc_mod.Job):
        def __init__(self, n, fail=False): self.n = n; self.fail = fail
        def execute(self):
            running[0] += 1; maxrun[0] = max(maxrun[0], running[0]); events.append(('start', self.n))
            S.yield_point('job body')
            running[0] -= 1; events.append(('end', self.n))
            if self.fail: raise RuntimeError('boom')
        def request_stop(self): pass
    S.cur = None
    jc = None
    def setup():
        nonlocal jc
        jc = JC()
    # setup runs outside scheduling (cur None => yield_point no-op)
    setup()
    def A():
        jc.add_job(J(1)); jc.add_job(J(2, fail=True))
    def B():
        jc.insert_job(J(3))
    S.spawn(A, 'A').start(); S.spawn(B, 'B').start()
    dead = S.run()
    return S, events, maxrun[0], dead, jc

def dfs():
    stack = [[]]; n = 0; bad = 0; t0 = time.time(); orders = collections.Counter()
    while stack:
        pre = stack.pop()
        S_, ev, mx, dead, jc = scenario(pre)
        n += 1
        starts = [e[1] for e in ev if e[0] == 'start']
        orders[tuple(starts)] += 1
        ok = mx <= 1 and sorted(starts) == [1, 2, 3] and not dead and not jc.__dict__['$_active_agent'] and len(jc.__dict__['$_queue']) == 0
        excs = [t.exc for t in S_.threads if t.exc is not None and not isinstance(t.exc, RuntimeError)]
        if not ok or excs:
            bad += 1
            if bad <= 3: print('BAD', pre, ev, mx, dead, excs)
        tr = S_.trail
        for i in range(len(pre), len(tr)):
            k, m = tr[i]
            for alt in range(k + 1, m):
                stack.append([c for c, _ in tr[:i]] + [alt])
    print('schedules', n, 'bad', bad, 'time', round(time.time() - t0, 2), dict(orders))
if __name__ == "__main__": dfs()
