"""C04 -- every repeat form runs the documented number of times with the documented values."""
import time

from vlib import report, scripth, shapes, refsem as R
from checks import common

PROP = 'C04'


def build_cases(tier, seed):
    cases, seen = [], set()

    def add(pop, stmts, tag):
        text = pop + '\n' + R.render(stmts)
        if text not in seen:
            seen.add(text)
            cases.append(scripth.Case(stmts, specs=shapes.POPULATIONS[pop], tag='%s[%s]' % (tag, pop),
                                      vm_steps=2500, ref_steps=900))
    k = 0
    # every single form, not nested, each population / break position reachable from the chooser: exhaustive
    for form in shapes.LOOP_FORMS:
        for pop, stmts in shapes.enumerate_all(shapes.loop_program([form], nest=False), limit=400):
            k += 1
            add(pop, stmts, 'single-%s-%d' % (form, k))
    n_single = len(cases)
    cnt = 350 if tier == 'quick' else 6000
    for pop, stmts in shapes.sample(shapes.loop_program(None, nest=True, in_routine=True), cnt, seed * 13 + 5):
        k += 1
        add(pop, stmts, 'nested-%d' % k)
    for p in shapes.enumerate_all(shapes.return_from_loops_program()):
        k += 1
        add('three', p, 'ret-loops-%d' % k)
    return cases, n_single


LIST_FORMS = [
    # the items of an `in` list may be written as values of any kind: names, variables, braces round a value, calls
    ('assign x "A" assign y "B" repeat in x and y as l begin print l end', ['A', 'B']),
    ('assign x "A" assign y "B" repeat in {x} and {y} as l begin print l end', ['A', 'B']),
    ('assign x "B" repeat in "C" and {x} and "A" as l begin print l end', ['C', 'B', 'A']),
    ('define a begin return "A" end define b begin return "B" end repeat in [a] and [b] as l begin print l end', ['A', 'B']),
    ('define a begin return "A" end repeat in [a] and "C" and [a] as l begin print l end', ['A', 'C', 'A']),
    ('define g begin return "G1" end define h begin return "G2" end repeat in group [g] and group [h] as l begin print l end', ['A', 'B', 'C', 'Z']),
    ('define g begin return "G2" end repeat in "A" and group [g] as l with v from 0 to 2 begin print l print v end', ['A', 0, 'C', 1.0, 'Z', 2.0]),
    ('assign n 2 repeat {n} begin print 1 end repeat [round 1.6] begin print 2 end', [1, 1, 2, 2]),
    # the loop variable after the loop (docs/iteration.rst: "it contains the value it had during the final iteration")
    ('repeat with i from 1 to 3 print 0 print i', [0, 0, 0, 3]),
    ('repeat with i from 3 to 1 print 0 print i', [0, 0, 0, 1]),
    ('repeat 2 with v from 0 to 10 print 0 print v', [0, 0, 10.0]),
    ('repeat with i from 1 to 5 begin if {i == 2} break end print i', [2]),
    ('repeat all as l with h from 0 to 4 print 0 print h', [0, 0, 0, 0, 0, 4.0]),
    ('repeat 4 with h cycle print 0 print h', [0, 0, 0, 0, 270.0]),
    # bounds and cycle starts written as a minus sign in front of a constant
    ('define lo 2 repeat with i from -lo to lo print i', [-2, -1, 0, 1, 2]),
    ('define lim 4 repeat 3 with v from lim to -lim print v', [4, 0.0, -4.0]),
    ('define start 90 repeat 2 with h cycle -start print h', [-90, 90.0]),
    ('define n 2 repeat with i from 0 to -n print i', [0, -1, -2]),
    # a routine defined inside a loop body or a conditional in it leaves the loop around it as written
    ('repeat with i from 1 to 3 begin define g with y begin print y end g i end print "done"', [1, 2, 3, 'done']),
    ('repeat with i from 1 to 2 begin repeat with j from 1 to 2 begin if {j == 2} begin define h with y begin print y end break end h {i * 10 + j} end print i end print "done"',
     [11, 1, 21, 2, 'done']),
    ('repeat 2 begin define k begin print 5 end k end print 6', [5, 5, 6]),
    ('assign n 0 repeat while {n < 2} begin define w begin print n end assign n {n + 1} w end print 9', [1, 2, 9]),
    ('repeat all as l begin define s with x begin print x end s l end', ['A', 'B', 'C', 'M', 'Z']),
]


def list_forms_worker(args):
    res = report.WorkResult('forms of loop lists and counts')
    from vlib import world
    world.start_function_trace()
    common.fixed_scripts(res, 'list-forms', LIST_FORMS)
    res.sample({'scripts': [t for t, _ in LIST_FORMS]})
    res.functions = world.functions_seen()
    return res


def run(tier, seed):
    t0 = time.time()
    cases, n_single = build_cases(tier, seed)
    items = [{'case': c, 'timeout_ms': 6000, 'max_paths': 500 if tier == 'quick' else 3000,
              'budget_s': 15 if tier == 'quick' else 120} for c in cases]
    items.append({'forms': True})
    results, skipped = report.run_pool(lambda a: list_forms_worker(a) if 'forms' in a else common.script_worker(a), items, budget_s=common.tier_budget(tier, 75, 1000))
    return report.finish(
        PROP, tier, seed, 'exploration', results, skipped,
        rule='work item = one loop program (one of %d loop forms, optionally nested in another form and in a routine, break at '
             'first/last body position after a symbolic number of passes) on one of %d light populations; counts, bounds and cycle '
             'starts are symbolic; the sequence of loop-variable values, light names and commands is compared with the reference '
             'semantics on every feasible path' % (len(shapes.LOOP_FORMS), len(shapes.POPULATIONS)),
        assumptions=common.SCRIPT_ASSUMPTIONS,
        bounds={'single_form_shapes_exhaustive': n_single, 'nested_shapes_seeded': len(cases) - n_single,
                'outer_count': '0..3', 'inner_count': '0..2', 'from_to_bounds': '-3..3 (integers) / -50..50 (reals)',
                'populations': sorted(shapes.POPULATIONS)},
        t0=t0, technique='bounded symbolic execution of the real loop code generator and VM (proxy objects, z3) against a reference interpreter')


def replay(v):
    print(v['message'])
    return 0
