"""C09 -- a stop request ends a running script promptly in every state and is never lost."""
import logging
import time

import bardolph.controller.script_job as sj_mod
import bardolph.lib.clock as clock_mod
import bardolph.lib.job_control as jc_mod
import bardolph.vm.machine as machine_mod
from bardolph.controller import i_controller
from bardolph.controller.script_job import ScriptJob
from bardolph.lib import i_lib, injection

from vlib import report, simsched, symx, world
from checks import common

PROP = 'C09'
TICK = 0.25

SCRIPTS = {
    'straight': 'on "A" off "A" on "B" off "B"',
    'forever': 'repeat begin on "A" off "A" end',
    'timed': 'time 1 on "A" off "A" on "B"',
    'time-of-day': 'time at 8:00 on "A" off "A"',
    'long-delay-then-loop': 'time 3 repeat begin on "A" end',
}
WEB_PATH = 'kid\'s "room" <&>'
NEXT_JOB = 'on "C" off "C" on "C"'
NEXT_FOREVER = 'repeat begin on "C" off "C" end'
LATER_JOB = 'time 1 on "C" off "C"'


class NeverEight:
    """datetime stand-in: it is never 8:00, so `time at 8:00` waits until stopped."""
    @staticmethod
    def now():
        class N:
            hour, minute = 12, 34
        return N()


def scenario(ctx, script_key, stop_api, with_next, max_preempt, later=False):
    s = simsched.Sched(ctx, max_preempt=max_preempt, max_steps=1500)
    saved = (jc_mod.threading, clock_mod.threading, clock_mod.time, clock_mod.datetime, sj_mod.Machine)
    jc_mod.threading = simsched.ShimThreading
    clock_mod.threading = simsched.ShimThreading
    clock_mod.time = simsched.ShimTime
    clock_mod.datetime = NeverEight
    problems = []
    try:
        TClock = simsched.traced(clock_mod.Clock, ['_keep_going'])

        def bind_clock(net):
            # the production binding (clock.configure(), as light_module does), applied to the traced class
            real_class = clock_mod.Clock
            clock_mod.Clock = TClock
            try:
                clock_mod.configure()
            finally:
                clock_mod.Clock = real_class
        simsched.Sched.cur_sched = None
        net = world.configure((('A', 'G1', 'L1', 'plain'), ('B', 'G1', 'L1', 'plain'), ('C', 'G2', 'L1', 'plain')),
                              clock=bind_clock, extra_settings={'sleep_time': TICK})
        simsched.Sched.cur_sched = s
        TMachine = simsched.traced(machine_mod.Machine, ['_keep_running'])
        sj_mod.Machine = TMachine
        JC = simsched.traced(jc_mod.JobControl, ['_active_agent'])
        jc = JC()
        import web.web_app as web_app_mod
        web_app = web_app_mod.WebApp.__new__(web_app_mod.WebApp)      # no manifest needed for stop-all
        web_app._scripts = {}
        web_app._jobs = jc
        job = ScriptJob.from_string(SCRIPTS[script_key])
        aim_next = stop_api == 'stop_next'
        nxt = ScriptJob.from_string(NEXT_FOREVER if aim_next else NEXT_JOB) if with_next else None
        lat = ScriptJob.from_string(LATER_JOB) if later and later != 'same' else None
        assert job.program is not None
        marks = {}
        real_execute = job.execute

        def timed_execute(*a, **kw):
            marks.setdefault('main_started_at', s.now)
            try:
                return real_execute(*a, **kw)
            finally:
                marks['main_done_at'] = s.now
        job.execute = timed_execute
        stamps = []
        orig_ev = net.ev

        def ev(*e):
            stamps.append((e, s.now))
            orig_ev(*e)
        net.ev = ev
        orig_request = net.request

        def request(dev, op):
            # network I/O takes (virtual) time and lets other threads run
            orig_request(dev, op)
            if simsched.S() is not None:
                simsched.ShimTime.sleep(0.05)
        net.request = request

        def requester():
            if stop_api in ('stop_background', 'stop_all_bg'):
                jc.spawn_job(job, 'main')
            elif stop_api == 'stop_bg_by_name':
                # the script under test runs in the background, another script is the current job of the queue
                jc.spawn_job(job, 'main')
                jc.add_job(ScriptJob.from_string(NEXT_FOREVER), 'foreground')
            elif stop_api == 'stop_other':
                # two scripts alive at once: a background script, which gets stopped, next to the queued script under test
                jc.spawn_job(ScriptJob.from_string(NEXT_FOREVER), 'other')
                marks['main_queued_at'] = s.now
                jc.add_job(job, 'main')
            elif stop_api in ('web_stop_script', 'web_stop_script_bg'):
                # started and stopped the way the web server does it: the job is named after the manifest path
                sc = web_app_mod.ScriptControl('main.ls', run_background=stop_api.endswith('_bg'), path=WEB_PATH)
                web_app._scripts[WEB_PATH] = sc
                real_job_class = web_app_mod.ScriptJob
                web_app_mod.ScriptJob = type('OneJob', (), {'from_file': staticmethod(lambda fname: job)})
                try:
                    web_app.queue_script(sc)
                finally:
                    web_app_mod.ScriptJob = real_job_class
            else:
                jc.add_job(job, 'main')
            if nxt is not None:
                jc.add_job(nxt, 'next')
            # the stop may land anywhere from here on: the scheduler decides how far the job got
            if stop_api == 'stop_other':
                # the stop comes while both scripts are under way
                for _ in range(1 + ctx.choose(2, 'let-it-run')):
                    simsched.ShimTime.sleep(TICK)
            elif stop_api != 'stop_all_handover':            # (that one waits for the job in front by itself)
                for _ in range(ctx.choose(3, 'let-it-run')):
                    simsched.ShimTime.sleep(TICK)
            marks['before'] = len(net.trace)
            simsched.Sched.cur_sched = None          # harness bookkeeping: not a scheduling point
            cur = jc.__dict__.get('$_active_agent')
            marks['current_at_stop'] = cur.name if cur is not None else None
            simsched.Sched.cur_sched = s
            if stop_api == 'stop_next':
                # the stop is aimed at the job queued behind: it takes effect once that job has been started
                # sleep while the job in front is still sending commands, then keep asking without
                # sleeping, so that the requests can interleave with the hand-over to the next job
                n_main = 4 if script_key == 'straight' else 3
                for attempt in range(300):
                    if len([e for e in net.trace if e[0] == 'power' and e[1] in ('A', 'B')]) >= n_main:
                        break
                    simsched.ShimTime.sleep(0.05)
                for attempt in range(80):
                    marks['result'] = jc.stop_job('next')
                    if marks['result']:
                        break
                    if attempt % 4 == 3:
                        simsched.ShimTime.sleep(0.01)
                    else:
                        s.yield_point('retry')
            elif stop_api in ('stop_job', 'stop_bg_by_name'):
                marks['result'] = jc.stop_job('main')
                if stop_api == 'stop_bg_by_name':
                    if not marks['result'] and jc.is_running('main'):
                        problems.append('stop_job for the running background script found no job while another script was the current job')
                    jc.stop_current()          # end the endless foreground script so that the schedule can finish
            elif stop_api in ('web_stop_script', 'web_stop_script_bg'):
                marks['result'] = web_app.stop_script(WEB_PATH)
                if not marks['result'] and (marks['current_at_stop'] is not None or stop_api.endswith('_bg')):
                    problems.append('the web server\'s stop for path %r found no job although the script it had started was running' % WEB_PATH)
            elif stop_api == 'stop_current':
                marks['result'] = jc.stop_current()
            elif stop_api in ('stop_background', 'stop_other'):
                marks['result'] = jc.stop_background()
            elif stop_api in ('stop_all', 'stop_all_bg'):       # the web server's stop-all, on this controller
                marks['result'] = web_app.stop_all()
            elif stop_api == 'stop_all_handover':
                # stop-all arriving while the job in front is finishing by itself and handing over to the next one
                n_main = 4 if script_key == 'straight' else 3
                for attempt in range(300):
                    if len([e for e in net.trace if e[0] == 'power' and e[1] in ('A', 'B')]) >= n_main:
                        break
                    simsched.ShimTime.sleep(0.05)
                # 0: the last request of the job in front is still under way; 1: the stop arrives at the instant that job ends
                # (the scheduler decides which thread moves first) or just after the hand-over
                for _ in range(ctx.choose(2, 'handover-wait')):
                    simsched.ShimTime.sleep(0.05)
                marks['before'] = len(net.trace)
                simsched.Sched.cur_sched = None
                cur = jc.__dict__.get('$_active_agent')
                marks['current_at_stop'] = cur.name if cur is not None else None
                simsched.Sched.cur_sched = s
                marks['result'] = web_app.stop_all()
            marks['returned'] = len(net.trace)
            marks['t_stop'] = s.now
            if later == 'same':
                # the same job object queued again after its stopped run
                for _ in range(40):
                    if not jc.is_running('main'):
                        break
                    simsched.ShimTime.sleep(TICK)
                marks['later_queued_at'] = s.now
                marks['trace_at_requeue'] = len(net.trace)
                jc.add_job(job, 'main')
            elif lat is not None:
                # a run started after the stop must be unaffected
                simsched.ShimTime.sleep(TICK)
                marks['later_queued_at'] = s.now
                jc.add_job(lat, 'later')
        req = s.spawn(requester, 'requester')

        def all_work_done():
            workers = [t for t in s.threads if t.name != 'run' and t.started]
            return bool(workers) and all(t.done for t in workers) and req.done
        s.stop_when = all_work_done
        left = s.run()
        simsched.Sched.cur_sched = None
        # ---- verdicts ----
        hung = [t.name for t in s.threads if t.started and not t.done and t.name != 'run']
        for t in s.threads:
            if t.exc is not None:
                problems.append('%s: exception escapes: %s: %s' % (t.name, type(t.exc).__name__, t.exc))
        main_cmds_after = [e for e in net.trace[marks.get('returned', len(net.trace)):marks.get('trace_at_requeue')] if e[0] == 'power' and e[1] in ('A', 'B')]
        if stop_api == 'stop_other':
            # the stopped script is the background one (commands to C)
            main_cmds_after = [e for e in net.trace[marks.get('returned', len(net.trace)):] if e[0] == 'power' and e[1] == 'C']
        if aim_next:
            main_cmds_after = [e for e in net.trace[marks.get('returned', len(net.trace)):] if e[0] == 'power' and e[1] == 'C'] \
                if marks.get('result') else []
            if 'returned' in marks and not marks.get('result'):
                problems.append('the queued job never became stoppable by name (stop_job kept returning False)')
        stopped_something = marks.get('result')
        main_finished_by_itself = script_key == 'straight' and len([e for e in net.trace if e[0] == 'power' and e[1] in ('A', 'B')]) == 4
        if s.out_of_steps or hung:
            if 'returned' in marks and not main_finished_by_itself:
                problems.append('the job is still running %d scheduler steps after the stop request returned (%s)' % (s.steps, hung or 'step bound'))
            elif 'returned' not in marks:
                problems.append('the stop call itself never returns (%s)' % (hung,))
        if stop_api in ('stop_job', 'stop_current', 'stop_background', 'stop_all', 'stop_all_bg', 'web_stop_script', 'web_stop_script_bg') \
                and later != 'same' and 'main_done_at' in marks and marks.get('main_started_at', 1e9) <= marks.get('t_stop', -1):
            # promptly: the clock's wait is bounded by one second (lib/clock.py), a request in progress takes 0.05 s here
            overrun = marks['main_done_at'] - marks['t_stop']
            if overrun > 1.0 + 2 * TICK + 0.2:
                problems.append('the stopped script went on for %.2f s after the stop request had returned (a wait is bounded by 1 s, a tick is %.2f s)' % (overrun, TICK))
        if len(main_cmds_after) > 1:
            problems.append('%d further commands of the stopped script reached the lights after the stop returned' % len(main_cmds_after))
        c_cmds = [e for e in net.trace if e[0] == 'power' and e[1] == 'C']
        if not s.out_of_steps and not hung:
            if with_next and not aim_next and stop_api in ('stop_job', 'stop_current') and marks.get('current_at_stop') != 'next':
                if len(c_cmds) < 3:
                    problems.append('the next queued job did not run to completion after the stop (%d of 3 commands)' % len(c_cmds))
            if with_next and stop_api in ('stop_all', 'stop_all_handover'):
                started_after = [e for e in net.trace[marks['returned']:] if e[0] == 'power' and e[1] == 'C']
                queued_ran_before = [e for e in net.trace[:marks['before']] if e[1] == 'C']
                # A queued job that the hand-over had already started when stop-all got to it is stopped like any running
                # job: at most its instruction in progress.  One that starts after stop-all returned runs unhindered (3 commands).
                if len(started_after) > 1 and marks.get('current_at_stop') != 'next':
                    problems.append('stop-all: a queued job started, or went on sending commands, after stop-all returned (%d commands)' % len(started_after))
                if jc.get_queued():
                    problems.append('stop-all left jobs in the queue')
            if stop_api == 'stop_other':
                # the stop was aimed at the other script: this one sends all its commands, each after its delay
                mine = [(e, t) for e, t in stamps if e[0] == 'power' and e[1] in ('A', 'B')]
                n_all = {'straight': 4, 'timed': 3}[script_key]
                if len(mine) != n_all:
                    problems.append('a stop aimed at another script: this script sent %d of its %d commands' % (len(mine), n_all))
                elif script_key == 'timed':
                    for k, (e, t) in enumerate(mine):
                        if t < marks['main_queued_at'] + (k + 1) * 1.0 - 1e-9:
                            problems.append('a stop aimed at another script: command #%d of this script went out %.2f s after it was queued, its delays add up to %d s'
                                            % (k + 1, t - marks['main_queued_at'], k + 1))
                            break
            if later == 'same':
                again = [e for e in net.trace[marks.get('trace_at_requeue', 0):] if e[0] == 'power' and e[1] in ('A', 'B')]
                n_all = {'straight': 4, 'timed': 3}[script_key]
                if len(again) != n_all:
                    problems.append('the same job queued again after its stopped run sent %d of its %d commands' % (len(again), n_all))
            elif later:
                lc = [(e, t) for e, t in stamps if e[0] == 'power' and e[1] == 'C']
                if len(lc) != 2:
                    problems.append('a job started after the stop sent %d of its 2 commands' % len(lc))
                elif lc[0][1] < marks['later_queued_at'] + 1 - 1e-9:
                    problems.append('a job started after the stop skipped its delay (first command %.2fs after it was queued, delay 1s)'
                                    % (lc[0][1] - marks['later_queued_at']))
        return problems, [(e[0], e[1]) for e in net.trace], list(s.switches)[-12:], dict(marks)
    finally:
        jc_mod.threading, clock_mod.threading, clock_mod.time, clock_mod.datetime, sj_mod.Machine = saved
        simsched.Sched.cur_sched = None


def worker(args):
    res = report.WorkResult('stop %(script)s via %(api)s next=%(next)s later=%(later)s' % args)
    world.start_function_trace()
    res.sites.add('stop')
    logging.disable(logging.CRITICAL)
    seen = {}
    # iterative context bounding: all schedules with 0, then <= 1, ... preemptions (most races need very few)
    t_end = time.time() + args['budget_s']
    exhaustive = True
    bound_of = {}
    for bound in range(0, args['preempt'] + 1):
        run = lambda c, b=bound: scenario(c, args['script'], args['api'], args['next'], b, args['later'])
        share = args['max_paths'] if bound == args['preempt'] else max(200, args['max_paths'] // 3)
        for ctx, out in symx.explore(run, max_paths=share, timeout_ms=1000, stats=res.stats, deadline=t_end):
            if isinstance(out, symx.Abort):
                res.out_of_bound += 1
                continue
            problems, trace, switches, marks = out
            res.nontrivial += 1
            res.reached.add('stop')
            for pmsg in problems[:1]:
                key = common_key(pmsg)
                if key not in seen:
                    seen[key] = (pmsg, trace, switches, marks, [a for a, _ in ctx.trail])
                    bound_of[key] = bound
        exhaustive = exhaustive and symx.explore.last_exhaustive
    symx.explore.last_exhaustive = exhaustive
    for key, (msg, trace, switches, marks, trail) in seen.items():
        rctx = symx.Ctx(prefix=trail, stats=symx.Stats())
        symx.Ctx.cur = rctx
        try:
            p2 = scenario(rctx, args['script'], args['api'], args['next'], bound_of.get(key, args['preempt']), args['later'])[0]
        except symx.Abort:
            p2 = []
        finally:
            symx.Ctx.cur = None
        res.violation('stop|%s|%s|%s' % (args['script'], args['api'], key),
                      '%s\n  script: %s   stop via %s%s\n  device commands: %s\n  last thread switches: %s  marks: %s\n  replay of the same schedule: %s'
                      % (msg, SCRIPTS[args['script']], args['api'], ' (another job queued behind)' if args['next'] else '', trace, switches, marks, p2[:1]),
                      inputs={'script': SCRIPTS[args['script']], 'api': args['api'], 'schedule': trail}, replayed=bool(p2))
    if not symx.explore.last_exhaustive:
        res.exhaustive = False
    res.sample({'script': SCRIPTS[args['script']], 'stop_api': args['api'], 'job_queued_behind': args['next'], 'job_started_afterwards': args['later']})
    res.functions = world.functions_seen()
    return res


def common_key(msg):
    import re
    return re.sub(r'\d+(\.\d+)?', 'N', msg)[:70]


def run(tier, seed):
    t0 = time.time()
    q = tier == 'quick'
    items = []
    for script in SCRIPTS:
        for api in ('stop_job', 'stop_current', 'stop_all', 'stop_background', 'stop_all_bg'):
            for nxt in ((False, True) if api not in ('stop_background', 'stop_all_bg') else (False,)):
                items.append({'script': script, 'api': api, 'next': nxt, 'later': False, 'preempt': 2 if q else 3,
                              'max_paths': 1500 if q else 150000, 'budget_s': 14 if q else 600})
        if script in ('straight', 'timed'):
            items.insert(0, {'script': script, 'api': 'stop_all_handover', 'next': True, 'later': False, 'preempt': 1 if q else 3,
                             'max_paths': 4000 if q else 150000, 'budget_s': 50 if q else 600})
            items.insert(0, {'script': script, 'api': 'stop_next', 'next': True, 'later': False, 'preempt': 2 if q else 3,
                             'max_paths': 3000 if q else 150000, 'budget_s': 45 if q else 600})
        if script in ('forever', 'timed'):
            items.append({'script': script, 'api': 'stop_bg_by_name', 'next': False, 'later': False, 'preempt': 1 if q else 2,
                          'max_paths': 1200 if q else 100000, 'budget_s': 12 if q else 400})
            for api in ('web_stop_script', 'web_stop_script_bg'):
                items.append({'script': script, 'api': api, 'next': False, 'later': False, 'preempt': 1 if q else 2,
                              'max_paths': 1200 if q else 100000, 'budget_s': 12 if q else 400})
        if script in ('straight', 'timed'):
            items.append({'script': script, 'api': 'stop_other', 'next': False, 'later': False, 'preempt': 1 if q else 2,
                          'max_paths': 1200 if q else 100000, 'budget_s': 14 if q else 400})
            items.append({'script': script, 'api': 'stop_job', 'next': False, 'later': 'same', 'preempt': 1 if q else 2,
                          'max_paths': 1200 if q else 100000, 'budget_s': 14 if q else 400})
        items.append({'script': script, 'api': 'stop_job', 'next': False, 'later': True, 'preempt': 1 if q else 2,
                      'max_paths': 1500 if q else 150000, 'budget_s': 15 if q else 600})
    if tier == 'thorough':
        common.fit_item_budgets(items, common.tier_budget(tier, 80, 1000))          # every scenario gets its turn
    results, skipped = report.run_pool(worker, items, budget_s=common.tier_budget(tier, 80, 1000))
    return report.finish(
        PROP, tier, seed, 'exploration', results, skipped,
        rule='work item = (script shape: straight-line, infinite repeat, timed, time-of-day, long delay; stop API: stop_job, stop_current, stop-all as the web server does it, '
             'stop_background; optionally another job queued behind; optionally a job started after the stop). The real JobControl, Agent, ScriptJob, Machine and Clock '
             '(clock thread included) run under the deterministic scheduler; the requester lets 0..2 ticks pass (choice) and the scheduler decides every switch at lock/thread/'
             'event/sleep operations and at accesses of Machine._keep_running, Clock._keep_going, JobControl._active_agent, within 2 (quick) / 3 (thorough) preemptions. Per schedule: '
             'the stopped job ends within the step bound, at most one further command is sent, the next queued job completes (or nothing starts after stop-all), a job started '
             'afterwards sends all its commands with its delay honoured, no exception escapes',
        assumptions=['threading/time/datetime inside job_control and clock are shims; virtual time advances only in sleep(); a time-of-day wait never matches by itself',
                     'a job is "started" once add_job/spawn_job has returned to the requester',
                     'lock waits never time out; the clock thread may outlive the schedule (it is not waited for)',
                     'discrete-event time: sleep() and network requests (0.05 s each) block the caller; virtual time advances only when every thread is blocked'],
        bounds={'preemptions': 2 if q else 3, 'scheduler_steps': 1500, 'ticks_before_stop': '0..2'},
        t0=t0, technique='systematic schedule exploration (choice variables with a preemption bound, depth-first via symx) of the real JobControl/ScriptJob/Machine/Clock threads')


def replay(v):
    print(v['message'])
    return 0
