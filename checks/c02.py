"""C02 -- expressions follow the documented precedence, associativity and arithmetic."""
import itertools
import random as _random
import time

import z3

from bardolph.parser.parse import Parser
from bardolph.vm.machine import Machine

from vlib import report, scripth, symx, world, ufterm, refsem as R
from vlib.refsem import SENT_BASE
from checks import common

PROP = 'C02'
N = R.Num
OPS = ufterm.OPS
# documented precedence, loosest first; ^ groups right to left
PREC = {'or': 1, 'and': 2, '<': 3, '<=': 3, '>': 3, '>=': 3, '==': 3, '!=': 3, '+': 4, '-': 4, '*': 5, '/': 5, '%': 5, '^': 6}


# ---------------------------------------------------------------- (a) structure
def ref_tree(tokens):
    """Reference precedence-climbing parse of a token list ['a','+','(', ...] into
    a z3 term over the uninterpreted operators.  Atoms are z3 constants."""
    pos = [0]

    def peek():
        return tokens[pos[0]] if pos[0] < len(tokens) else None

    def atom():
        t = tokens[pos[0]]
        pos[0] += 1
        if t == '(':
            v = expr(1)
            assert tokens[pos[0]] == ')'
            pos[0] += 1
            return v
        if t == 'neg':
            # a leading minus negates its operand (binds tighter than any binary operator)
            v = atom()
            return ufterm.UF['*'](v, ufterm.OFINT(z3.IntVal(-1)))
        return z3.Const(t, ufterm.T)

    def expr(minp):
        lhs = atom()
        while peek() in PREC and PREC[peek()] >= minp:
            op = peek()
            pos[0] += 1
            rhs = expr(PREC[op] + (0 if op == '^' else 1))
            if op in ('and', 'or'):
                a, b = ufterm.TRUTHY(lhs), ufterm.TRUTHY(rhs)
                lhs = ufterm.OFBOOL(z3.And(a, b) if op == 'and' else z3.Or(a, b))
            else:
                lhs = ufterm.app(op, lhs, rhs)
        return lhs
    v = expr(1)
    assert pos[0] == len(tokens), tokens
    return v


def render_tokens(tokens):
    out = []
    for t in tokens:
        out.append('-' if t == 'neg' else t)
    s = ' '.join(out).replace('- ', '-') if False else ' '.join(out)
    return s.replace('neg ', '-')


POSITIONS = ['print', 'assign', 'register', 'argument', 'if', 'while']


def structure_script(tokens, names, position):
    text = ''.join('assign %s %d\n' % (n, SENT_BASE + i + 1) for i, n in enumerate(names))
    e = '{' + ' '.join('-' if t == 'neg' else t for t in tokens).replace('- ', '-') + '}'
    if position == 'print':
        text += 'print %s\n' % e
    elif position == 'assign':
        text += 'assign r %s\nprint r\n' % e
    elif position == 'register':
        text += 'hue %s\nprint hue\n' % e
    elif position == 'argument':
        text = 'define show with p begin print p end\n' + text + 'show %s\n' % e
    elif position == 'if':
        text += 'if %s begin print 1 end else begin print 2 end\n' % e
    elif position == 'while':
        text += 'assign once 0\nrepeat while %s begin print 1 break end\nprint 3\n' % e
    return text


def structure_worker(args):
    res = report.WorkResult('structure %s' % args['label'])
    world.start_function_trace()
    res.sites.add('structure')
    for tokens, position in args['exprs']:
        names = sorted({t for t in tokens if t.isalpha() and t not in PREC and t != 'neg'})
        text = structure_script(tokens, names, position)
        world.configure(())
        p = Parser()
        if not p.parse(text):
            res.violation('structure|does not compile', 'valid expression rejected: %s\n%s' % (p.get_errors(), text),
                          inputs={'script': text}, replayed=True)
            continue
        prog = p.get_program()
        slots = [(inst, i) for inst in prog for i in [inst.param0]
                 if isinstance(i, int) and not isinstance(i, bool) and i > SENT_BASE]
        exp = ref_tree(list(tokens))

        def harness(ctx):
            net = world.configure(())
            ctx.solver.add(ufterm.TRUTHY(ufterm.OFBOOL(z3.BoolVal(True))),
                           z3.Not(ufterm.TRUTHY(ufterm.OFBOOL(z3.BoolVal(False)))))
            for inst, sent in slots:
                inst.param0 = ufterm.Term(z3.Const(names[sent - SENT_BASE - 1], ufterm.T))
            try:
                m = Machine()
                m.reset()
                scripth._instrument(m, 400)
                m.run(prog)
            finally:
                for inst, sent in slots:
                    inst.param0 = sent
            return net
        for ctx, net in symx.explore(harness, max_paths=64, timeout_ms=4000, stats=res.stats):
            if isinstance(net, symx.Abort):
                res.out_of_bound += 1
                continue
            res.nontrivial += 1
            outs = [e[1] for e in net.trace if e[0] == 'out']
            if net.aborted:
                prop, what = False, 'run aborted: %s' % net.aborted
            elif position in ('if', 'while'):
                if not outs:
                    prop, what = False, 'no output'
                else:
                    taken = outs[0] == 1
                    t = ufterm.TRUTHY(exp)
                    prop, what = (t if taken else z3.Not(t)), 'branch taken does not follow the truth of the documented parse'
            else:
                if len(outs) != 1:
                    prop, what = False, 'expected one printed value, got %r' % (outs,)
                else:
                    try:
                        got = ufterm.lift(outs[0])
                        prop, what = got == exp, 'value term %s is not the documented parse %s' % (got, exp)
                    except TypeError:
                        prop, what = False, 'printed %r' % (outs[0],)
            verdict, model = ctx.prove(prop)
            if verdict == 'unsat':
                res.reached.add('structure')
            elif verdict == 'unknown':
                res.inconclusive.append(text)
            else:
                res.reached.add('structure')
                # replay: interpret the operators concretely with a non-associative, non-commutative pairing
                msg = replay_structure(text, tokens, names, position)
                res.violation('structure|%s|%s' % (position, ' '.join(t for t in tokens if t in PREC or t in ('(', ')', 'neg'))),
                              '%s\n  in position %s: %s\n  replay: %s' % (what, position, text.strip().splitlines()[-1] if position == 'print' else text, msg),
                              inputs={'script': text}, replayed=msg is not None)
    res.sample({'expressions': [' '.join(t) for t, _ in args['exprs'][:3]], 'count': len(args['exprs'])})
    res.functions = world.functions_seen()
    return res


class Tree:
    """Concrete replay value: records its own parse tree as a string."""
    def __init__(self, s): self.s = s

    def _b(self, o, op, sw=False):
        os_ = o.s if isinstance(o, Tree) else repr(o)
        a, b = (os_, self.s) if sw else (self.s, os_)
        return Tree('(%s %s %s)' % (a, op, b))
    __add__ = lambda s, o: s._b(o, '+'); __radd__ = lambda s, o: s._b(o, '+', True)
    __sub__ = lambda s, o: s._b(o, '-'); __rsub__ = lambda s, o: s._b(o, '-', True)
    __mul__ = lambda s, o: s._b(o, '*'); __rmul__ = lambda s, o: s._b(o, '*', True)
    __truediv__ = lambda s, o: s._b(o, '/'); __mod__ = lambda s, o: s._b(o, '%'); __pow__ = lambda s, o: s._b(o, '^')
    __lt__ = lambda s, o: s._b(o, '<'); __le__ = lambda s, o: s._b(o, '<='); __gt__ = lambda s, o: s._b(o, '>')
    __ge__ = lambda s, o: s._b(o, '>='); __eq__ = lambda s, o: s._b(o, '=='); __ne__ = lambda s, o: s._b(o, '!=')
    __hash__ = None
    def __bool__(self): return True


import numbers as _numbers
_numbers.Number.register(Tree)


def ref_string(tokens):
    pos = [0]

    def atom():
        t = tokens[pos[0]]; pos[0] += 1
        if t == '(':
            v = expr(1); pos[0] += 1
            return v
        if t == 'neg':
            return '(%s * -1)' % atom()
        return t

    def expr(minp):
        lhs = atom()
        while pos[0] < len(tokens) and tokens[pos[0]] in PREC and PREC[tokens[pos[0]]] >= minp:
            op = tokens[pos[0]]; pos[0] += 1
            rhs = expr(PREC[op] + (0 if op == '^' else 1))
            lhs = '(%s %s %s)' % (lhs, op, rhs)
        return lhs
    return expr(1)


def replay_structure(text, tokens, names, position):
    if position in ('if', 'while') or 'and' in tokens or 'or' in tokens:
        return 'symbolic counterexample (truth-valued position; not replayed through string trees)'
    saved = symx.Ctx.cur
    symx.Ctx.cur = None
    try:
        net = world.configure(())
        p = Parser()
        p.parse(text)
        prog = p.get_program()
        for inst in prog:
            if isinstance(inst.param0, int) and not isinstance(inst.param0, bool) and inst.param0 > SENT_BASE:
                inst.param0 = Tree(names[inst.param0 - SENT_BASE - 1])
        m = Machine(); m.reset(); m.run(prog)
        outs = [e[1] for e in net.trace if e[0] == 'out']
        got = outs[0].s if outs and isinstance(outs[0], Tree) else repr(outs)
        exp = ref_string(list(tokens))
        return None if got == exp else 'evaluated as %s, documented grouping is %s' % (got, exp)
    finally:
        symx.Ctx.cur = saved


def gen_exprs(nops, paren_variants, seed, limit):
    """Token lists with `nops` binary operators over atoms a, b, c ...; optional
    unary minus on one atom and one pair of (redundant or overriding) parentheses."""
    names = 'abcdef'
    out = []
    for ops in itertools.product(OPS, repeat=nops):
        base = []
        for i, op in enumerate(ops):
            base += [names[i], op]
        base.append(names[nops])
        out.append(base)
    rng = _random.Random(seed)
    extra = []
    for base in out:
        if paren_variants:
            n_atoms = nops + 1
            # parenthesise a contiguous sub-expression [i..j]
            i = rng.randrange(0, n_atoms - 1)
            j = rng.randrange(i + 1, n_atoms)
            t = list(base)
            t.insert(2 * j + 1, ')')
            t.insert(2 * i, '(')
            extra.append(t)
            k = rng.randrange(0, n_atoms)
            t2 = list(base)
            t2.insert(2 * k, 'neg')
            extra.append(t2)
    allx = out + extra
    if limit and len(allx) > limit:
        rng.shuffle(allx)
        allx = allx[:limit]
    return allx


# ---------------------------------------------------------------- (b) arithmetic
def arithmetic_cases():
    cases = []
    k = 0

    def mk(e, doms, tag):
        nonlocal k
        k += 1
        st = [R.Print(e, ln=True)]
        cases.append(scripth.Case(st, specs=(), tag='arith-%s' % tag, doms=doms))
    big = ('real', -10 ** 4, 10 ** 4)
    ints = ('int', -10 ** 4, 10 ** 4)
    for op in ['+', '-', '*', '/', '<', '<=', '>', '>=', '==', '!=', 'and', 'or']:
        for dom, dn in ((big, 'real'), (ints, 'int')):
            mk(R.Bin(op, N(sid=1, kind='any'), N(sid=2, kind='any')), {1: dom, 2: dom}, '%s-%s' % (op, dn))
    mk(R.Bin('%', N(sid=1, kind='any'), N(sid=2, kind='any')), {1: ints, 2: ('int', 1, 12)}, 'mod-int-pos')
    mk(R.Bin('%', N(sid=1, kind='any'), N(sid=2, kind='any')), {1: ints, 2: ('int', -12, -1)}, 'mod-int-neg')
    for d in (360, 7, -7, 2.5):
        mk(R.Bin('%', N(sid=1, kind='any'), N(value=d)), {1: big}, 'mod-real-%s' % d)
    for ex in range(0, 5):
        mk(R.Bin('^', N(sid=1, kind='any'), N(value=ex)), {1: ('real', -50, 50)}, 'pow-%d' % ex)
    mk(R.Neg(N(sid=1, kind='any')), {1: big}, 'neg')
    mk(R.Bin('-', R.Neg(N(sid=1, kind='any')), R.Neg(N(sid=2, kind='any'))), {1: big, 2: big}, 'neg-neg')
    # numbers in a logical position
    st = [R.If(N(sid=1, kind='any'), [R.Print(N(value=1))], [R.Print(N(value=2))])]
    cases.append(scripth.Case(st, specs=(), tag='arith-truth-of-number', doms={1: ('int', -3, 3)}))
    st = [R.If(R.Bin('and', N(sid=1, kind='any'), R.Bin('or', N(sid=2, kind='any'), N(sid=3, kind='any'))), [R.Print(N(value=1))], [R.Print(N(value=2))])]
    cases.append(scripth.Case(st, specs=(), tag='arith-truth-and-or', doms={1: big, 2: big, 3: ints}))
    # the same expression in every value position
    e = lambda: R.Bin('-', R.Bin('*', N(sid=1, kind='any'), N(sid=2, kind='any')), R.Bin('/', N(sid=3, kind='any'), N(value=4)))
    d3 = {1: ('real', -20, 20), 2: ('int', -5, 5), 3: ('real', -100, 100)}
    cases.append(scripth.Case([R.SetReg('brightness', e()), R.Print(R.Reg('brightness'))], specs=(), tag='pos-register', doms=d3))
    cases.append(scripth.Case([R.Assign('v', e()), R.Print(R.Var('v'))], specs=(), tag='pos-assign', doms=d3))
    cases.append(scripth.Case([R.RoutineDef('f', ['p'], [R.Print(R.Var('p'))]), R.Call('f', [e()])], specs=(), tag='pos-argument', doms=d3))
    cases.append(scripth.Case([R.If(R.Bin('>', e(), N(value=0)), [R.Print(N(value=1))], [R.Print(N(value=2))])], specs=(), tag='pos-if', doms=d3))
    cases.append(scripth.Case([R.Define('m', N(sid=1, kind='any')), R.Assign('v', N(sid=2, kind='any')), R.SetReg('hue', N(sid=3, kind='any')),
                               R.Print(R.Bin('+', R.Bin('*', R.Var('m'), R.Var('v')), R.Reg('hue')))], specs=(), tag='operands-macro-var-reg', doms=d3))
    cnt = {1: ('int', 0, 2), 2: ('int', 0, 2)}
    cases.append(scripth.Case([R.Repeat('count', [R.Print(N(value=1))], n=R.Bin('+', N(sid=1, kind='any'), N(sid=2, kind='any')))], specs=(), tag='pos-count', doms=cnt))
    cases.append(scripth.Case([R.Repeat('with', [R.Print(R.Var('i'))], var='i', a=R.Bin('-', N(sid=1, kind='any'), N(value=1)), b=R.Bin('*', N(sid=2, kind='any'), N(value=2)))], specs=(), tag='pos-from-to', doms=cnt))
    cases.append(scripth.Case([R.Assign('i', N(sid=1, kind='any')), R.Repeat('with', [R.Print(R.Var('i'))], var='i', a=N(value=1), b=R.Bin('+', R.Var('i'), N(sid=2, kind='any')))],
                              specs=(), tag='pos-to-mentions-index', doms=cnt))
    cases.append(scripth.Case([R.Assign('w', N(sid=1, kind='any')), R.Repeat('while', [R.Print(R.Var('w')), R.Assign('w', R.Bin('-', R.Var('w'), N(value=1)))],
                                                                     cond=R.Bin('>', R.Bin('*', R.Var('w'), N(value=2)), N(value=1)))], specs=(), tag='pos-while', doms=cnt))
    cases.append(scripth.Case([R.If(N(sid=1, kind='any'), [R.Print(N(value=1))], [R.Print(N(value=2))])], specs=(), tag='truth-if-number', doms={1: ('real', -3, 3)}))
    cases.append(scripth.Case([R.Assign('k', N(sid=1, kind='any')), R.Repeat('while', [R.Print(R.Var('k')), R.Assign('k', R.Bin('-', R.Var('k'), N(value=1)))], cond=R.Var('k'))],
                              specs=(), tag='truth-while-number', doms={1: ('int', 0, 3)}))
    cases.append(scripth.Case([R.RoutineDef('f', ['p'], [R.Return(R.Bin('-', R.Var('p'), N(value=2)))]), R.If(R.CallE('f', [N(sid=1, kind='any')]), [R.Print(N(value=1))], [R.Print(N(value=2))])],
                              specs=(), tag='truth-if-call', doms={1: ('int', 0, 4)}))
    # built-ins with documented definitions
    for fn in ('round', 'trunc', 'floor', 'ceil', 'cycle'):
        cases.append(scripth.Case([R.Print(R.CallE(fn, [N(sid=1, kind='any')]))], specs=(), tag='builtin-%s' % fn, doms={1: ('real', -1000, 1000)}))
        cases.append(scripth.Case([R.Print(R.CallE(fn, [R.Bin('/', N(sid=1, kind='any'), N(value=2))]))], specs=(), tag='builtin-%s-halves' % fn, doms={1: ('int', -9, 9)}))
    # transcendental built-ins: uninterpreted functions (vlib/ufmath.py) -- right function, right argument, right unit side
    for fn in ('sqrt', 'sin', 'cos', 'tan', 'atan'):
        cases.append(scripth.Case([R.Print(R.CallE(fn, [N(sid=1, kind='any')]))], specs=(), tag='builtin-%s' % fn, doms={1: ('real', -1000, 1000)}))
        cases.append(scripth.Case([R.Print(R.Bin('*', R.CallE(fn, [R.Bin('+', N(sid=1, kind='any'), N(sid=2, kind='any'))]), N(value=2)))], specs=(),
                                  tag='builtin-%s-in-expression' % fn, doms={1: ('real', 0, 500), 2: ('real', 0, 500)}))
    for fn in ('asin', 'acos'):
        cases.append(scripth.Case([R.Print(R.CallE(fn, [N(sid=1, kind='any')]))], specs=(), tag='builtin-%s' % fn, doms={1: ('real', -1, 1)}))
    cases.append(scripth.Case([R.Print(R.CallE('sin', [R.CallE('asin', [N(sid=1, kind='any')])]))], specs=(), tag='builtin-sin-of-asin', doms={1: ('real', -1, 1)}))
    return cases


# ---------------------------------------------------------------- (c) random
class StubRandom:
    """Stands in for the `random` module inside bardolph_math: returns an arbitrary
    value permitted by Python's documented contract and records the call."""
    def __init__(self, ctx):
        self.ctx = ctx
        self.calls = []

    def _ret(self, kind, a, b, lo, hi_incl):
        v = self.ctx.int('rand_%s_%d' % (kind, len(self.calls)))
        self.ctx.assume(v.e >= symx.term(lo))
        self.ctx.assume(v.e <= symx.term(hi_incl))
        self.calls.append((kind, a, b, v))
        return v

    def randrange(self, a, b=None, step=1):
        if b is None:
            a, b = 0, a
        if bool(a >= b):
            raise ValueError('empty range for randrange()')
        return self._ret('randrange', a, b, a, b - 1)

    def randint(self, a, b):
        if bool(a > b):
            raise ValueError('empty range for randint()')
        return self._ret('randint', a, b, a, b)

    def seed(self, *a):
        pass

    def __getattr__(self, name):
        raise symx.Abort('random.%s is not modelled' % name)


def _random_explore(res, bardolph_math, halves):
    """[random a b] with symbolic bounds: whole numbers, or (halves) multiples of 1/2 written as {k / 2} -- float bounds,
    integral or not, with at least one whole number between them."""
    lit = '{%d / 2}' if halves else '%d'
    text = 'assign a %s\nassign b %s\nprint [random a b]\n' % (lit % (SENT_BASE + 1), lit % (SENT_BASE + 2))
    world.configure(())
    p = Parser()
    assert p.parse(text), p.get_errors()
    prog = p.get_program()
    slots = [inst for inst in prog if isinstance(inst.param0, int) and not isinstance(inst.param0, bool) and inst.param0 > SENT_BASE]
    assert len(slots) == 2
    lim = 40 if halves else 50

    def shown(k):
        return lit % k

    def harness(ctx):
        a = ctx.int('a', -lim, lim)
        b = ctx.int('b', -lim, lim)
        if halves:
            # some whole number lies within the bounds: ceil(a/2) <= floor(b/2)
            ctx.assume(-z3.ToInt(-a.e / 2) <= z3.ToInt(b.e / 2))
        else:
            ctx.assume(a.e <= b.e)
        stub = StubRandom(ctx)
        saved = bardolph_math.py_random
        bardolph_math.py_random = stub
        net = world.configure(())
        for inst in slots:
            inst.param0 = a if inst.param0 == SENT_BASE + 1 else b
        try:
            m = Machine(); m.reset(); scripth._instrument(m, 200); m.run(prog)
        finally:
            bardolph_math.py_random = saved
            slots[0].param0, slots[1].param0 = SENT_BASE + 1, SENT_BASE + 2
        return a, b, stub, net
    for ctx, out in symx.explore(harness, max_paths=50, timeout_ms=10000, stats=res.stats):
        if isinstance(out, symx.Abort):
            res.out_of_bound += 1
            continue
        a, b, stub, net = out
        la, lb = (a.e / 2, b.e / 2) if halves else (a.e, b.e)
        res.nontrivial += 1
        outs = [e[1] for e in net.trace if e[0] == 'out']
        if net.aborted or len(outs) != 1 or len(stub.calls) != 1:
            verdict, model = ctx.prove(False)
            if verdict == 'sat':
                mv = ctx.model_values(model)
                msg = replay_random_value(shown(mv['a']), shown(mv['b']), None)
                res.violation('random|aborts', '[random %s %s]: %s\n  replay: %s' % (shown(mv['a']), shown(mv['b']), net.aborted or outs, msg),
                              inputs=mv, replayed=msg is not None)
            continue
        r = outs[0]
        # (1) range: a <= n <= b, integer
        verdict, model = ctx.prove(z3.And(symx.term(r) >= la, symx.term(r) <= lb, z3.IsInt(symx.term(r))))
        res.reached.add('random-range')
        if verdict == 'sat':
            mv = ctx.model_values(model)
            gen = [v for k, v in mv.items() if k.startswith('rand_')]
            msg = replay_random_value(shown(mv['a']), shown(mv['b']), gen[0] if gen else None)
            res.violation('random|out of range', '[random %s %s] can return %s\n  replay: %s' % (shown(mv['a']), shown(mv['b']), symx.concrete(r, model), msg),
                          inputs=mv, replayed=msg is not None)
        # (2) completeness: every whole n in [a, b] is produced by some value the generator may return
        kind, ca, cb, v = stub.calls[0]
        vconst = [c for name, c in ctx.vars.items() if name.startswith('rand_')][0]
        n = z3.Int('n_target')
        w = z3.Int('w')
        rw = z3.substitute(symx.term(r), (z3.ToReal(vconst), z3.ToReal(w)))
        lo, hi = (symx.term(ca), symx.term(cb) - 1) if kind == 'randrange' else (symx.term(ca), symx.term(cb))
        unreachable = z3.And(z3.ToReal(n) >= la, z3.ToReal(n) <= lb,
                             z3.ForAll([w], z3.Implies(z3.And(z3.ToReal(w) >= lo, z3.ToReal(w) <= hi), rw != z3.ToReal(n))))
        s = z3.Solver()
        s.set('timeout', 20000)
        # the path condition on the bounds (everything that does not speak about the generator's return value)
        for c in ctx.solver.assertions():
            if not _mentions(c, vconst):
                s.add(c)
        s.add(unreachable)
        res.stats.queries += 1
        t = time.time()
        rr = str(s.check())
        res.stats.solver_s += time.time() - t
        res.reached.add('random-complete')
        if rr == 'unsat':
            res.stats.proved += 1
            res.stats.q_unsat += 1
        elif rr == 'sat':
            res.stats.refuted += 1
            res.stats.q_sat += 1
            m = s.model()
            av = m.eval(ctx.vars['a'], model_completion=True).as_long()
            bv = m.eval(ctx.vars['b'], model_completion=True).as_long()
            nv = m.eval(n, model_completion=True).as_long()
            msg = replay_random_never(shown(av), shown(bv), nv)
            res.violation('random|value never produced',
                          '[random %s %s] can never return %d although it lies within the bounds (generator call: %s)\n  replay: %s'
                          % (shown(av), shown(bv), nv, kind, msg), inputs={'a': shown(av), 'b': shown(bv), 'n': nv}, replayed=msg is not None)
        else:
            res.stats.inconclusive += 1
            res.stats.q_unknown += 1
            res.inconclusive.append('random completeness: solver unknown')


def _mentions(expr, const):
    todo, seen = [expr], set()
    while todo:
        e = todo.pop()
        if e.get_id() in seen:
            continue
        seen.add(e.get_id())
        if z3.is_const(e) and e.decl().kind() == z3.Z3_OP_UNINTERPRETED and e.eq(const):
            return True
        if z3.is_quantifier(e):
            todo.append(e.body())
        else:
            todo.extend(e.children())
    return False


def random_worker(args):
    from bardolph.runtime import bardolph_math
    res = report.WorkResult('random')
    world.start_function_trace()
    res.sites.update(['random-range', 'random-complete'])
    for halves in (False, True):
        _random_explore(res, bardolph_math, halves)
    # the same call with the real random module and bounds whose value is integral but whose Python type is float
    # (the proxies are type-agnostic; randint is not)
    saved_ctx = symx.Ctx.cur
    symx.Ctx.cur = None
    world.uninstall_real_mode()
    try:
        for la, lb, lo, hi in (('1', '3', 1, 3), ('1', '{6 / 2}', 1, 3), ('{4 / 2}', '{8 / 2}', 2, 4), ('{0 - 1.0}', '{1.0}', -1, 1), ('{2 * 1.5}', '3', 3, 3)):
            script = 'print [random %s %s]' % (la, lb)
            for seed in range(12):
                bardolph_math.py_random.seed(seed)
                net = world.configure(())
                p2 = Parser()
                assert p2.parse(script), p2.get_errors()
                m = Machine(); m.reset(); m.run(p2.get_program())
                outs = [e[1] for e in net.trace if e[0] == 'out']
                res.nontrivial += 1
                if net.aborted or len(outs) != 1 or not (lo <= outs[0] <= hi) or outs[0] != int(outs[0]):
                    res.violation('random|integral float bounds', '%s: %s' % (script, net.aborted or 'printed %r, expected an integer in %d..%d' % (outs, lo, hi)),
                                  inputs={'script': script, 'seed': seed}, replayed=True)
                    break
    finally:
        world.install_real_mode()
        symx.Ctx.cur = saved_ctx
    res.sample({'script': 'assign a A assign b B print [random a b] (A, B whole, or {k / 2})', 'stub': 'random.randrange/randint return any value within their documented contract'})
    res.functions = world.functions_seen()
    return res


def replay_random_value(a, b, value):
    """Concrete replay of `print [random a b]` (a, b as written in the script).  value: what the generator is to return
    (checked against the contract of the call actually made) -- None: the real generator."""
    from bardolph.runtime import bardolph_math
    import fractions

    class Fixed:
        def randint(self, lo, hi):
            if lo != int(lo) or hi != int(hi) or isinstance(lo, float) or isinstance(hi, float):
                raise TypeError('randint needs integers')
            if not lo <= value <= hi:
                raise ValueError('the replayed value is outside what randint(%r, %r) may return' % (lo, hi))
            return value

        def randrange(self, lo, hi=None, step=1):
            lo, hi = (0, lo) if hi is None else (lo, hi)
            if not lo <= value < hi:
                raise ValueError('the replayed value is outside what randrange(%r, %r) may return' % (lo, hi))
            return value
    saved_ctx = symx.Ctx.cur
    symx.Ctx.cur = None
    saved = bardolph_math.py_random
    try:
        if value is not None:
            bardolph_math.py_random = Fixed()
        net = world.configure(())
        p = Parser()
        if not p.parse('assign a %s assign b %s print a print b print [random a b]' % (a, b)):
            return None
        m = Machine(); m.reset(); m.run(p.get_program())
        outs = [e[1] for e in net.trace if e[0] == 'out']
        if net.aborted:
            return 'aborts: %s' % net.aborted if len(outs) >= 2 and fractions.Fraction(outs[0]).__ceil__() <= fractions.Fraction(outs[1]).__floor__() else None
        if len(outs) != 3:
            return 'printed %r' % outs
        lo, hi, got = outs
        if isinstance(got, bool) or got != int(got) or not lo <= got <= hi:
            return 'bounds %r and %r, returned %r' % (lo, hi, got)
        return None
    finally:
        bardolph_math.py_random = saved
        symx.Ctx.cur = saved_ctx


def replay_random_never(a, b, n):
    """Concrete replay with the real random module: enumerate what the generator
    call made by bardolph can return, by patching only the source of randomness."""
    from bardolph.runtime import bardolph_math
    saved_ctx = symx.Ctx.cur
    symx.Ctx.cur = None
    seen = set()
    try:
        import random
        for seed in range(400):
            bardolph_math.py_random.seed(seed)
            net = world.configure(())
            p = Parser(); p.parse('print [random %s %s]' % (a, b))
            m = Machine(); m.reset(); m.run(p.get_program())
            outs = [e[1] for e in net.trace if e[0] == 'out']
            if outs:
                seen.add(outs[0])
        return None if n in seen else '400 seeded runs returned only %s' % sorted(seen)
    finally:
        symx.Ctx.cur = saved_ctx


def deep_forms():
    nest = '1'
    for _ in range(100):
        nest = '1 + (%s)' % nest
    powers = ' ^ '.join(['1'] * 70)
    left = ' - '.join(['1'] * 120)
    return [
        ('print {%s}' % nest, [101]),
        ('print {%s}' % powers, [1]),
        ('print {%s}' % left, [-118]),
        ('define s with n begin if {n <= 0} return 0 return {n + [s {n - 1}]} end print [s 80]', [3240]),
        ('define s with n begin if {n <= 0} return 0 return {[s {n - 1}] + n} end print [s 80]', [3240]),
        ('assign a 1000 print {a != 1000} print {a == 1000} print {2.5 != 2.5} print {3 != 3.0} print {300 + 700 != a}', [False, True, False, False, False]),
    ]


def deep_worker(args):
    """Depth: expressions nested 100 deep, 70 chained powers, recursion 80 deep with an operand pending, and operands
    that are equal values but not the same Python object."""
    res = report.WorkResult('deep and wide expressions')
    world.start_function_trace()
    common.fixed_scripts(res, 'deep-forms', deep_forms(), specs=())
    res.functions = world.functions_seen()
    return res


def arith_worker(args):
    return common.script_worker(args)


def dispatch(args):
    k = args['kind']
    if k == 'structure':
        return structure_worker(args)
    if k == 'random':
        return random_worker(args)
    if k == 'deep':
        return deep_worker(args)
    return arith_worker(args)


def run(tier, seed):
    t0 = time.time()
    items = [{'kind': 'random'}, {'kind': 'deep'}]
    for c in arithmetic_cases():
        items.append({'kind': 'arith', 'case': c, 'timeout_ms': 10000, 'max_paths': 500, 'budget_s': 40})
    # calls as operands and arguments whose callee returns out of nested loops (the caller's pending operands stay)
    from vlib import shapes
    for i, prog in enumerate(shapes.enumerate_all(shapes.return_from_loops_program())):
        c = scripth.Case(prog, specs=shapes.POPULATIONS['three'], tag='call-operand-%d' % i, vm_steps=2500, ref_steps=900)
        if '{10 + [find' in c.text or 'show [find' in c.text:
            items.append({'kind': 'arith', 'case': c, 'timeout_ms': 10000, 'max_paths': 300, 'budget_s': 20})
    # structure: all operator vectors up to the bound, in every position
    plan = [(1, POSITIONS, False, None), (2, POSITIONS, True, None), (3, ['print', 'if'], True, None), (4, ['print', 'if'], True, 4000 if tier == 'quick' else 60000)]
    if tier == 'thorough':
        plan.append((5, ['print'], True, 40000))
    total = 0
    for nops, positions, par, limit in plan:
        exprs = gen_exprs(nops, par, seed + nops, limit)
        pairs = [(e, pos) for ei, e in enumerate(exprs) for pos in (positions if nops < 3 else [positions[ei % len(positions)]])]
        total += len(pairs)
        chunk = 60
        for i in range(0, len(pairs), chunk):
            items.append({'kind': 'structure', 'label': '%dops-%d' % (nops, i // chunk), 'exprs': pairs[i:i + chunk]})
    results, skipped = report.run_pool(dispatch, items, budget_s=common.tier_budget(tier, 75, 900))
    return report.finish(
        PROP, tier, seed, 'exploration', results, skipped,
        rule='(a) structure: every vector of up to 3 binary operators (<=2: all six value positions; 3: print/if alternating), 4000 (quick) / 60000 (thorough) seeded 4-operator and 40000 5-operator (thorough) vectors, '
             'with optional parentheses and unary minus is compiled by the real lexer/parser and evaluated by the real VM on opaque operands whose '
             'operators are uninterpreted functions; z3 shows the resulting term equals the documented parse tree under every interpretation. '
             '(b) arithmetic: each operator, unary minus, numbers-as-truth, every value position and the built-ins round/trunc/floor/ceil/cycle on '
             'symbolic numbers against the ordinary value. (c) random: the random source is a stub returning any value in its documented contract; '
             'range a<=n<=b and reachability of every n (quantified query)',
        assumptions=common.SCRIPT_ASSUMPTIONS[:2] + [
            'structure part: equality of uninterpreted terms is parse-tree identity; truthiness is an uninterpreted predicate',
            'transcendental built-ins (sin..atan, sqrt) and ^ with a symbolic exponent are outside the claim',
            'random: python random.randrange(a,b) returns a<=n<b, randint(a,b) returns a<=n<=b, every such n possible'],
        bounds={'operators_per_expression': '<=3 exhaustive, 4 seeded (5 thorough)', 'expressions_x_positions': total, 'integers': '|x|<=1e4', 'pow_exponent': '0..4 concrete'},
        t0=t0, technique='symbolic execution of the real lexer/parser/VM with uninterpreted operators (parse-tree identity by z3 EUF) and with z3 reals/ints for operator arithmetic; quantified reachability query for random')


def replay(v):
    print(v['message'])
    return 0
