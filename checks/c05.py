"""C05 -- on every path, compiled control transfers stay in the script and frames balance."""
import re
import time

import z3

from bardolph.controller.routine import RuntimeRoutine
from bardolph.vm.loader import Loader
from bardolph.vm.vm_codes import JumpCondition, OpCode, Operand

from vlib import report, scripth, shapes, symx, world, refsem as R
from checks import common

PROP = 'C05'


# ---- static checks over the whole instruction graph ---------------------------
def segments(image):
    """index -> routine name or None (main), from ROUTINE ... END name brackets."""
    seg = [None] * len(image)
    cur = None
    for i, inst in enumerate(image):
        if inst.op_code is OpCode.ROUTINE:
            cur = inst.param0
        seg[i] = cur
        if cur is not None and inst.op_code is OpCode.END and inst.param0 == cur:
            cur = None
    return seg


def static_checks(prog):
    """All-paths structural checks of the pre-load program and the loaded image."""
    issues = []
    loader = Loader()
    loader.load(prog)
    image = loader.get_code()
    routines = loader.get_routines()
    # the image is the same one however often it is read (listings and checkers read it before the VM does)
    again = loader.get_code()
    if [(i.op_code, i.param0, i.param1) for i in again] != [(i.op_code, i.param0, i.param1) for i in image]:
        issues.append('a second read of the loaded image differs from the first (%d instructions, then %d): the routine table no longer fits it'
                      % (len(image), len(again)))
    n = len(image)
    seg = segments(image)
    pos_pre = {id(inst): i for i, inst in enumerate(prog)}
    pos_img = {id(inst): i for i, inst in enumerate(image)}

    def norm_pre(t):
        # a branch that lands on a routine definition continues after it
        while t < len(prog) and prog[t].op_code is OpCode.ROUTINE:
            name = prog[t].param0
            t += 1
            while t < len(prog) and not (prog[t].op_code is OpCode.END and prog[t].param0 == name):
                t += 1
            t += 1
        return t
    for j, inst in enumerate(image):
        if inst.op_code is OpCode.JUMP and inst.param0 is not JumpCondition.INDIRECT:
            if not isinstance(inst.param1, int):
                issues.append('jump at %d has no offset (%r)' % (j, inst.param1))
                continue
            tj = j + inst.param1
            if inst.param1 == 0 and inst.param0 is JumpCondition.ALWAYS:
                issues.append('jump at %d goes to itself' % j)
                continue
            if not (0 <= tj <= n):
                issues.append('jump at %d leaves the program (target %d of %d)' % (j, tj, n))
                continue
            if j > 0:
                sj = seg[j]
                st = seg[tj] if tj < n else None
                if sj != st:
                    issues.append('jump at %d in %s lands in %s' % (j, sj or 'main', st or 'main'))
                if tj < n and image[tj].op_code is OpCode.ROUTINE:
                    issues.append('jump at %d lands on a routine header' % j)
            # loader invariance: same target object as in the parser's listing
            if id(inst) in pos_pre:
                i = pos_pre[id(inst)]
                ti = i + inst.param1
                if not (0 <= ti <= len(prog)):
                    issues.append('pre-load jump at %d leaves the program' % i)
                    continue
                ti = norm_pre(ti)
                # skip padding the loader may leave where a definition was
                tj2 = tj
                while tj2 < n and image[tj2].op_code is OpCode.NOP and id(image[tj2]) not in pos_pre:
                    tj2 += 1
                pre_obj = prog[ti] if ti < len(prog) else None
                img_obj = image[tj2] if tj2 < n else None
                if pre_obj is not img_obj:
                    issues.append('loading moved the target of the jump at pre-load %d: %r -> %r' % (i, pre_obj, img_obj))
        if inst.op_code is OpCode.JSR:
            if inst.param0 not in routines:
                issues.append('call at %d names unknown routine %r' % (j, inst.param0))
    for name, r in routines.items():
        if isinstance(r, RuntimeRoutine):
            continue
        a = r.get_address()
        if not (0 < a <= n) or seg[a - 1] != name or image[a - 1].op_code is not OpCode.ROUTINE:
            issues.append('routine %s entry address %d is not its first instruction' % (name, a))
    return issues, image


# ---- dynamic monitor ------------------------------------------------------------
class Monitor:
    def __init__(self):
        self.issues = []
        self.active = []
        self.seg = None
        self.edges = {}

    def __call__(self, m):
        image = m._program
        if self.seg is None or len(self.seg) != len(image):
            self.seg = segments(image)
        pc = m._reg.pc
        if not isinstance(pc, int) or pc < 0 or pc >= len(image):
            self.issues.append('pc %r outside the program' % (pc,))
            return
        inst = image[pc]
        here = self.seg[pc]
        top = self.active[-1] if self.active else None
        if here != top:
            self.issues.append('pc %d is in %s while %s is executing' % (pc, here or 'main', top or 'main'))
        op = inst.op_code
        if op is OpCode.JSR:
            rtn = m._routines.get(inst.param0)
            if rtn is None:
                self.issues.append('call of missing routine %r' % inst.param0)
            elif not isinstance(rtn, RuntimeRoutine):
                self.active.append(inst.param0)
        elif op is OpCode.RETURN or (op is OpCode.END and inst.param0 is not Operand.MATRIX):
            if not self.active:
                self.issues.append('return at %d outside any call' % pc)
            else:
                self.active.pop()
        elif op is OpCode.ROUTINE:
            self.issues.append('fell into the header of routine %s at %d' % (inst.param0, pc))


def worker(args):
    import sys
    sys.setrecursionlimit(20000)
    case = args['case']
    res = report.WorkResult(case.tag)
    world.start_function_trace()
    res.sites.update(['static', 'dynamic'])
    try:
        prog, slots = scripth.compile_case(case)
    except scripth.CompileError as ce:
        res.error = 'generated script does not compile: %s\n%s' % (ce, case.text)
        return res
    issues, image = static_checks(prog)
    res.reached.add('static')
    res.extra['jumps'] = sum(1 for i in image if i.op_code is OpCode.JUMP)
    for msg in issues[:3]:
        res.violation('%s|static %s' % (case.tag, scripth._sig_of(msg)),
                      'static image check: %s\n  script:\n%s' % (msg, case.text),
                      inputs={'script': case.text}, replayed=True)
    if issues:
        return res
    deadline = time.time() + args['budget_s']
    holder = {}

    def harness(ctx):
        vals = scripth.make_values(ctx, case)
        mon = Monitor()
        holder['mon'] = mon

        def post(net, m):
            cs = m._call_stack
            top = cs.get_top()
            mon.end = {
                'root_frame': top.parent is None,
                'eval_depth': len(m._vm_math._eval_stack._stack),
                'pc': m._reg.pc, 'len': len(m._program),
            }
        net = scripth.run_vm(case, prog, slots, vals, monitor=mon, post=post)
        # which statements ran, in which order: the source's own answer (reference semantics, structure only)
        mon.structure = None
        if not net.aborted:
            try:
                interp = scripth.run_ref(case, vals, net)
                mon.structure, _ = R.compare_traces(scripth.norm_vm_trace(net.trace), interp.trace, slack=1e-6)
            except (R.OutOfScope, scripth.StepBound, KeyError):
                pass          # outside what the reference semantics models (e.g. a routine defined inside a branch not taken)
        return vals, net, mon

    for ctx, out in symx.explore(harness, max_paths=args['max_paths'], timeout_ms=args['timeout_ms'],
                                 stats=res.stats, deadline=deadline):
        if isinstance(out, symx.Abort):
            res.out_of_bound += 1
            continue
        vals, net, mon = out
        res.nontrivial += 1
        problems = list(mon.issues)
        if net.aborted:
            problems.append('run aborted: %s' % net.aborted)
        else:
            e = mon.end
            if not e['root_frame']:
                problems.append('call/loop frames left on the stack at exit')
            if e['eval_depth'] != 0:
                problems.append('%d value(s) left on the evaluation stack at exit' % e['eval_depth'])
            if e['pc'] != e['len']:
                problems.append('run ended at pc %d of %d' % (e['pc'], e['len']))
            if mon.active:
                problems.append('routine %s never returned' % mon.active[-1])
            if not problems and getattr(mon, 'structure', None):
                problems.append('a branch or loop led somewhere else than the source says: %s' % mon.structure)
        if not problems:
            res.reached.add('dynamic')
            continue
        verdict, model = ctx.prove(False)       # is this path feasible at all?
        if verdict == 'unsat':
            continue
        if verdict == 'unknown':
            res.inconclusive.append(case.tag)
            continue
        res.reached.add('dynamic')
        cv = scripth.concrete_values(case, ctx.model_values(model))
        msg = replay_dynamic(case, prog, slots, cv)
        res.violation('%s|dynamic %s' % (case.tag, scripth._sig_of(problems[0])),
                      '%s\n  replay: %s\n  script:\n%s' % (problems[0], msg, scripth.text_with_values(case, cv)),
                      inputs={'script': scripth.text_with_values(case, cv), 'values': cv}, replayed=msg is not None)
    if not symx.explore.last_exhaustive:
        res.exhaustive = False
    res.sample({'tag': case.tag, 'script': case.text[:300], 'jumps_checked_statically': res.extra['jumps']})
    res.functions = world.functions_seen()
    return res


def replay_dynamic(case, prog, slots, cv):
    saved = symx.Ctx.cur
    symx.Ctx.cur = None
    world.uninstall_real_mode()
    try:
        mon = Monitor()
        end = {}

        def post(net, m):
            end.update(root=m._call_stack.get_top().parent is None,
                       depth=len(m._vm_math._eval_stack._stack), pc=m._reg.pc, n=len(m._program))
        net = scripth.run_vm(case, prog, slots, cv, monitor=mon, post=post)
        if mon.issues:
            return mon.issues[0]
        if net.aborted:
            return 'run aborted: %s' % net.aborted
        if not end['root'] or end['depth'] != 0 or end['pc'] != end['n'] or mon.active:
            return 'unbalanced at exit: %r active=%r' % (end, mon.active)
        try:
            interp = scripth.run_ref(case, cv, net)
            mm, _ = R.compare_traces(scripth.norm_vm_trace(net.trace), interp.trace, slack=1e-6)
            if mm:
                return 'statements executed differ from the source: %s' % mm
        except (R.OutOfScope, scripth.StepBound, KeyError):
            pass
        return None
    except symx.Abort:
        return None
    finally:
        world.install_real_mode()
        symx.Ctx.cur = saved


def build_cases(tier, seed):
    cases, seen = [], set()

    def add(stmts, tag, specs=world.DEFAULT_SPECS):
        text = repr(specs) + R.render(stmts)
        if text not in seen:
            seen.add(text)
            cases.append(scripth.Case(stmts, specs=specs, tag=tag, vm_steps=2500, ref_steps=900))
    k = 0
    for p in shapes.enumerate_all(shapes.compound_def_program(), limit=3000 if tier == 'thorough' else 600):
        k += 1
        add(p, 'def-in-compound-%d' % k)
    n_def = len(cases)
    q = tier == 'quick'
    for p in shapes.sample(shapes.general_program(6, 2), 120 if q else 2000, seed + 1):
        k += 1
        add(p, 'general-%d' % k)
    for p in shapes.sample(shapes.routine_program(2, True, True), 120 if q else 2000, seed + 2):
        k += 1
        add(p, 'routine-%d' % k)
    for pop, p in shapes.sample(shapes.loop_program(None, True, True), 150 if q else 2500, seed + 3):
        k += 1
        add(p, 'loop-%d' % k, shapes.POPULATIONS[pop])
    return cases, n_def


DUPLICATES = [
    'define f begin on all end define f begin off all end f',
    'define f begin on all end f define f begin off all end f',
    'define f with n begin if {n > 0} f {n - 1} on all end if {1 > 2} begin define f with n begin off all end end f 1',
    'define sqrt with x begin return 1 end print [sqrt 4]',
    'define f on all define g off all define f g f',
]


def duplicates_worker(args):
    """A call leads to the routine the source names: a name that is defined twice must be rejected; if it is accepted,
    every call still has exactly one routine of that name to go to."""
    from bardolph.parser.parse import Parser
    res = report.WorkResult('routine names defined twice')
    world.start_function_trace()
    res.sites.add('duplicates')
    for text in DUPLICATES:
        res.nontrivial += 1
        world.configure()
        p = Parser()
        ok = p.parse(text)
        res.reached.add('duplicates')
        if not ok:
            if 'Line ' not in p.get_errors():
                res.violation('duplicates|no message', 'rejected without a line-numbered message: %s' % text, inputs={'script': text}, replayed=True)
            continue
        names = [i.param0 for i in p.get_program() if i.op_code is OpCode.ROUTINE]
        twice = sorted({n for n in names if names.count(n) > 1})
        if twice:
            loader = Loader()
            loader.load(p.get_program())
            res.violation('duplicates|two routines of one name', 'accepted although %s is defined %d times: the calls written for the first definition go to address %s, the last one loaded'
                          % (twice, names.count(twice[0]), loader.get_routines()[twice[0]].get_address()), inputs={'script': text}, replayed=True)
    res.functions = world.functions_seen()
    return res


# ---- leftovers of a rejected compile: whatever the same compiler accepts next still has all its jumps inside ----
UNFINISHED = [
    'repeat 2 begin hue nosuch end', 'repeat all as l begin repeat 2 begin hue nosuch', 'define r9 begin repeat while {1 > 0} begin hue nosuch end end',
    'if {1 > 0} begin repeat with i from 1 to 2 begin hue nosuch', 'set "M" begin repeat 2 begin hue nosuch', 'define r9 with a begin if {a > 0} begin hue nosuch',
]
AFTERWARDS = ['break', 'on all break off all', 'if {1 > 0} break on all', 'define r begin break end r', 'repeat 2 begin on all end break',
              'define r with a begin if {a > 0} break return a end print [r 1]', 'repeat 2 begin if {1 > 0} break end on all']


def leftovers_worker(args):
    from bardolph.parser.parse import Parser
    res = report.WorkResult('compiles after a rejected compile')
    world.start_function_trace()
    res.sites.add('leftovers')
    for first in UNFINISHED:
        for second in AFTERWARDS:
            res.nontrivial += 1
            world.configure()
            p = Parser()
            if p.parse(first):
                res.error = 'the unfinished script %r is accepted' % first
                return res
            res.reached.add('leftovers')
            if not p.parse(second):
                continue
            fresh = Parser()
            issues, _ = static_checks(p.get_program())
            if issues:
                res.violation('leftovers|%s' % re.sub(r'\d+', 'N', issues[0])[:60],
                              'accepted after the rejected script %r (a fresh compiler %s it): %s\n  script: %s'
                              % (first, 'also accepts' if fresh.parse(second) else 'rejects', '; '.join(issues[:3]), second),
                              inputs={'first': first, 'script': second}, replayed=True)
    res.functions = world.functions_seen()
    return res


# ---- a break whose nearest loop lies outside the routine it is written in: rejected, or every jump stays in the routine ----
OUTER_LOOPS = ['repeat 2 begin %s end', 'repeat all as l begin %s end', 'repeat with i from 1 to 2 begin %s end', 'repeat while {1 > 2} begin %s end',
               'repeat 2 begin repeat in "Top" as l begin %s end end', 'repeat 2 begin if {1 > 0} begin %s end end']
LOOSE_DEFS = ['define r9 break r9', 'define r9 begin break end r9', 'define r9 begin on all break off all end r9', 'define r9 begin if {1 > 0} break end r9',
              'define r9 begin if {1 > 2} on all else begin break end end r9', 'define r9 with a begin if {a > 0} break return a end print [r9 1]',
              'define r9 begin break end', 'define r8 begin repeat 2 begin on all end break end r8']


def loose_break_worker(args):
    from bardolph.parser.parse import Parser
    res = report.WorkResult('break in a routine defined inside a loop')
    world.start_function_trace()
    res.sites.add('loose-break')
    for loop in OUTER_LOOPS:
        for d in LOOSE_DEFS:
            text = loop % d
            res.nontrivial += 1
            world.configure()
            p = Parser()
            ok = p.parse(text)
            res.reached.add('loose-break')
            if not ok:
                if 'Line ' not in p.get_errors():
                    res.violation('loose-break|no message', 'rejected without a line-numbered message: %s' % text, inputs={'script': text}, replayed=True)
                continue
            issues, _ = static_checks(p.get_program())
            if issues:
                res.violation('loose-break|%s' % re.sub(r'\d+', 'N', issues[0])[:60],
                              'accepted, but a control transfer leaves the routine it is written in: %s\n  script: %s' % ('; '.join(issues[:3]), text),
                              inputs={'script': text}, replayed=True)
    res.functions = world.functions_seen()
    return res


def run(tier, seed):
    t0 = time.time()
    cases, n_def = build_cases(tier, seed)
    items = [{'case': c, 'timeout_ms': 4000, 'max_paths': 300 if tier == 'quick' else 2000,
              'budget_s': 12 if tier == 'quick' else 90} for c in cases]
    items.append({'duplicates': True})
    items.append({'leftovers': True})
    items.append({'loose_break': True})
    results, skipped = report.run_pool(lambda a: duplicates_worker(a) if 'duplicates' in a else leftovers_worker(a) if 'leftovers' in a else loose_break_worker(a) if 'loose_break' in a else worker(a), items, budget_s=common.tier_budget(tier, 70, 900))
    jumps = sum(r.extra.get('jumps', 0) for r in results)
    return report.finish(
        PROP, tier, seed, 'exploration', results, skipped,
        rule='work item = one program shape; (1) static, over the whole instruction graph of the parser listing and the loaded image: '
             'every JUMP target in range and in the same routine/main segment as its source, never a routine header, same target '
             'instruction object before and after loading, every JSR names a loaded routine, routine entry addresses; (2) dynamic, on '
             'every feasible path with symbolic conditions: pc inside a routine body exactly while that routine is active, no fall-through '
             'into a routine header, and at exit root frame, empty evaluation stack, pc at end',
        assumptions=common.SCRIPT_ASSUMPTIONS[:3] + ['segment membership is read from the ROUTINE/END brackets of the loaded image'],
        bounds={'def_in_compound_shapes': n_def, 'other_shapes_seeded': len(cases) - n_def, 'jumps_checked_statically': jumps},
        t0=t0, technique='static instruction-graph checks on parser listing vs loaded image + bounded symbolic execution of the real VM with a control-flow monitor (z3-decided paths)')


def replay(v):
    print(v['message'])
    return 0
