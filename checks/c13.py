"""C13 -- the light directory stays self-consistent over any discovery/expiry history."""
import itertools
import random
import time

import z3
from lifxlan.errors import WorkflowException

from bardolph.controller import i_controller, light as light_mod
from bardolph.lib.sorted_list import SortedList

from vlib import report, symx, world
from checks import common

PROP = 'C13'
GROUPS = ('g1', 'G2')          # names that differ in the case of their first letter:
LOCS = ('l1', 'L0')            # the directory orders names as strings, case-sensitively
PLACES = [(g, l) for g in GROUPS for l in LOCS]
MAX_AGE = 300.5          # the configured age need not be a whole number of seconds


class VTime:
    def __init__(self, now):
        self.now = now

    def time(self):
        return self.now


def snapshots(names):
    """All populations over `names`: each name absent or at one of the 4 places."""
    opts = [None] + PLACES
    for combo in itertools.product(range(len(opts)), repeat=len(names)):
        yield {n: opts[k] for n, k in zip(names, combo) if opts[k] is not None}


def set_population(net, snap):
    net.devices = [world.StubDevice(net, n, g, l) for n, (g, l) in sorted(snap.items(), reverse=True)]


def invariant(ls, model):
    """Check the public view of the directory against the model {name: (group, loc)}.
    Returns None or a message."""
    names = list(ls.get_light_names())
    exp_names = sorted(model)
    if names != exp_names:
        return 'light names %r, expected %r' % (names, exp_names)
    if ls.get_light_count() != len(exp_names):
        return 'light count %r, expected %d' % (ls.get_light_count(), len(exp_names))
    for n in exp_names:
        lt = ls.get_light(n)
        if lt is None or lt.get_name() != n:
            return 'get_light(%r) = %r' % (n, lt)
    for kind, getter_names, getter_members, idx in (('group', ls.get_group_names, ls.get_group_lights, 0),
                                                    ('location', ls.get_location_names, ls.get_location_lights, 1)):
        exp = {}
        for n, place in model.items():
            exp.setdefault(place[idx], []).append(n)
        got_names = list(getter_names())
        if got_names != sorted(exp):
            return '%s names %r, expected %r' % (kind, got_names, sorted(exp))
        for s in set(got_names) | set(exp):
            members = getter_members(s)
            members = None if members is None else list(members)
            if members != sorted(exp.get(s, [])) or not members:
                return '%s %r members %r, expected %r' % (kind, s, members, sorted(exp.get(s, [])))
    return None


def directory_worker(args):
    global MAX_AGE
    try:
        return _directory_worker(args)
    finally:
        MAX_AGE = 300.5


def _directory_worker(args):
    global MAX_AGE
    names = args['names']
    # the configured age: 300.5 s by default; small limits put the boundary inside the range in which int()/round() of an
    # age can be followed (they fork over whole values), 0 is the limit "anything not seen just now"
    MAX_AGE = args.get('max_age', 300.5)
    dt_max = args.get('dt_max', 1000)
    as_text = bool(args.get('as_text'))          # the limit as a configuration file gives it
    res = report.WorkResult('directory pre=%s age-limit=%s' % (args['pre'], MAX_AGE))
    world.start_function_trace()
    res.sites.update(['discover', 'failed-discover', 'expire'])
    pre = args['pre']
    posts = args['posts']
    for post in posts:
        for op in ('discover', 'failed', 'refresh', 'refresh-failed'):
            def harness(ctx):
                net = world.configure((), extra_settings={'light_gc_time': str(MAX_AGE) if as_text else MAX_AGE}, discover=False)
                t0 = ctx.real('t0', 0, 10 ** 6)
                vt = VTime(t0)
                saved = light_mod.time
                light_mod.time = vt
                try:
                    ls = net.light_set
                    set_population(net, pre)
                    ok0 = ls.discover()
                    model = {n: (p, t0) for n, p in pre.items()}
                    dt = ctx.real('dt', 0, dt_max)
                    vt.now = t0 + dt
                    msgs = []
                    if ok0 is not True:
                        msgs.append('initial discover returned %r' % ok0)
                    if op in ('failed', 'refresh-failed'):
                        net.fault = lambda label, o, seq: o == 'discover'
                    set_population(net, post)
                    before = (list(ls.get_light_names()), {g: list(ls.get_group_lights(g)) for g in ls.get_group_names()})
                    if op in ('discover', 'failed'):
                        r = ls.discover()
                        if (r is True) != (op == 'discover') or (op == 'failed' and r is not False):
                            msgs.append('discover returned %r' % (r,))
                    else:
                        ls.refresh()
                    if op in ('discover', 'refresh'):
                        for n, p in post.items():
                            model[n] = (p, vt.now)
                    if op in ('refresh', 'refresh-failed'):
                        for n in list(model):
                            if vt.now - model[n][1] > MAX_AGE:
                                del model[n]
                    msg = invariant(ls, {n: p for n, (p, _) in model.items()})
                    if msg:
                        msgs.append(msg)
                    return msgs
                finally:
                    light_mod.time = saved
            for ctx, out in symx.explore(harness, max_paths=16, timeout_ms=4000, stats=res.stats):
                if isinstance(out, symx.Abort):
                    res.out_of_bound += 1
                    continue
                res.nontrivial += 1
                site = {'discover': 'discover', 'failed': 'failed-discover'}.get(op, 'expire')
                if not out:
                    res.reached.add(site)
                    continue
                verdict, model = ctx.prove(False)
                if verdict != 'sat':
                    if verdict == 'unknown':
                        res.inconclusive.append('directory')
                    continue
                res.reached.add(site)
                mv = ctx.model_values(model)
                msg = replay_directory(pre, post, op, float(mv['t0']), float(mv['dt']), as_text)
                res.violation('directory|%s|%s' % (op, out[0].split(' ')[0]),
                              'history: discover(%s); +%ss; %s(%s): %s\n  replay: %s' % (pre, float(mv['dt']), op, post, out[0], msg),
                              inputs={'pre': pre, 'post': post, 'op': op, 'dt': float(mv['dt'])}, replayed=msg is not None)
            except_paths = None
    res.sample({'pre': pre, 'posts': len(posts), 'ops': ['discover', 'failed discover', 'refresh (discover+expire)', 'refresh with failed discover']})
    res.functions = world.functions_seen()
    return res


def replay_directory(pre, post, op, t0, dt, as_text=False):
    saved_ctx = symx.Ctx.cur
    symx.Ctx.cur = None
    saved = light_mod.time
    try:
        net = world.configure((), extra_settings={'light_gc_time': str(MAX_AGE) if as_text else MAX_AGE}, discover=False)
        vt = VTime(t0)
        light_mod.time = vt
        ls = net.light_set
        set_population(net, pre)
        ls.discover()
        model = {n: (p, t0) for n, p in pre.items()}
        vt.now = t0 + dt
        if op in ('failed', 'refresh-failed'):
            net.fault = lambda label, o, seq: o == 'discover'
        set_population(net, post)
        if op in ('discover', 'failed'):
            r = ls.discover()
            if (r is True) != (op == 'discover'):
                return 'discover returned %r' % (r,)
        else:
            ls.refresh()
        if op in ('discover', 'refresh'):
            for n, p in post.items():
                model[n] = (p, vt.now)
        if op in ('refresh', 'refresh-failed'):
            for n in list(model):
                if vt.now - model[n][1] > MAX_AGE:
                    del model[n]
        return invariant(ls, {n: p for n, (p, _) in model.items()})
    except Exception as ex:
        return 'exception %r' % (ex,)
    finally:
        light_mod.time = saved
        symx.Ctx.cur = saved_ctx


# ---- longer explicit histories (independent second harness) ----------------------------
def history_worker(args):
    res = report.WorkResult('history seed=%d' % args['seed'])
    world.start_function_trace()
    res.sites.add('history')
    rng = random.Random(args['seed'])
    names = args['names']
    snaps = list(snapshots(names))
    for _ in range(args['count']):
        steps = [(rng.choice(['discover', 'failed', 'refresh', 'refresh-failed', 'advance']), rng.choice(snaps)) for _ in range(args['length'])]

        def harness(ctx):
            net = world.configure((), extra_settings={'light_gc_time': MAX_AGE}, discover=False)
            vt = VTime(ctx.real('t0', 0, 1000))
            saved = light_mod.time
            light_mod.time = vt
            try:
                ls = net.light_set
                model = {}
                for i, (op, snap) in enumerate(steps):
                    net.fault = (lambda label, o, seq: o == 'discover') if op in ('failed', 'refresh-failed') else None
                    set_population(net, snap)
                    if op == 'advance':
                        vt.now = vt.now + ctx.real('dt%d' % i, 0, 400)
                        continue
                    if op in ('discover', 'failed'):
                        ls.discover()
                    else:
                        ls.refresh()
                    if op in ('discover', 'refresh'):
                        for n, p in snap.items():
                            model[n] = (p, vt.now)
                    if op in ('refresh', 'refresh-failed'):
                        for n in list(model):
                            if vt.now - model[n][1] > MAX_AGE:
                                del model[n]
                    msg = invariant(ls, {n: p for n, (p, _) in model.items()})
                    if msg:
                        return 'after step %d (%s): %s' % (i + 1, op, msg)
                return None
            finally:
                light_mod.time = saved
        for ctx, out in symx.explore(harness, max_paths=40, timeout_ms=4000, stats=res.stats):
            if isinstance(out, symx.Abort):
                res.out_of_bound += 1
                continue
            res.nontrivial += 1
            if out is None:
                res.reached.add('history')
                continue
            verdict, model = ctx.prove(False)
            if verdict == 'sat':
                res.reached.add('history')
                res.violation('history|%s' % out.split(':')[0][:30], 'history %s: %s (times %s)' % (steps, out, ctx.model_values(model)),
                              inputs={'steps': steps}, replayed=True)
    res.sample({'example_history': [(op, s) for op, s in steps]})
    res.functions = world.functions_seen()
    return res


# ---- stepping through a sorted list -----------------------------------------------------
def stepping_worker(args):
    n = args['n']
    res = report.WorkResult('stepping n=%d' % n)
    world.start_function_trace()
    res.sites.update(['next-prev', 'add-remove', 'iterate'])

    def mk(ctx):
        xs = [ctx.real('x%d' % i, -100, 100) for i in range(n)]
        for a, b in zip(xs, xs[1:]):
            ctx.assume(a.e < b.e)
        return xs

    def h_nextprev(ctx):
        xs = mk(ctx)
        v = ctx.real('v', -101, 101)
        sl = SortedList()
        list.extend(sl, xs)
        return xs, v, sl.next(v), sl.prev(v), sl.first(), sl.last(), sl.has(v)
    for ctx, out in symx.explore(h_nextprev, max_paths=400, timeout_ms=4000, stats=res.stats):
        if isinstance(out, symx.Abort):
            res.out_of_bound += 1
            continue
        res.nontrivial += 1
        xs, v, nx, pv, fi, la, has = out
        conds = []
        T = symx.term
        if nx is None:
            conds.append(z3.And(*[T(x) <= T(v) for x in xs]) if xs else z3.BoolVal(True))
        else:
            conds.append(z3.And(T(nx) > T(v), z3.Or(*[T(nx) == T(x) for x in xs]), *[z3.Or(T(x) <= T(v), T(x) >= T(nx)) for x in xs]))
        if pv is None:
            conds.append(z3.And(*[T(x) >= T(v) for x in xs]) if xs else z3.BoolVal(True))
        else:
            conds.append(z3.And(T(pv) < T(v), z3.Or(*[T(pv) == T(x) for x in xs]), *[z3.Or(T(x) >= T(v), T(x) <= T(pv)) for x in xs]))
        if xs:
            conds.append(z3.And(symx.eq(fi, xs[0]), symx.eq(la, xs[-1])))
        else:
            conds.append(z3.BoolVal(fi is None and la is None))
        conds.append(symx.truth(has) == (z3.Or(*[T(x) == T(v) for x in xs]) if xs else z3.BoolVal(False)))
        verdict, model = ctx.prove(z3.And(*conds))
        if verdict == 'unsat':
            res.reached.add('next-prev')
        elif verdict == 'unknown':
            res.inconclusive.append('next-prev')
        else:
            res.reached.add('next-prev')
            mv = ctx.model_values(model)
            vals = [float(mv['x%d' % i]) for i in range(n)]
            vv = float(mv['v'])
            sl = SortedList(vals)
            res.violation('stepping|next-prev', 'SortedList%r probe %r: next=%r prev=%r first=%r last=%r has=%r is not the nearest remaining element'
                          % (vals, vv, sl.next(vv), sl.prev(vv), sl.first(), sl.last(), sl.has(vv)), inputs={'list': vals, 'probe': vv}, replayed=True)

    def h_addremove(ctx):
        xs = mk(ctx)
        v = ctx.real('v', -101, 101)
        sl = SortedList()
        list.extend(sl, xs)
        op = ctx.choose(2, 'op')
        if op == 0:
            sl.add(v)
        else:
            sl.remove(v)
        return xs, v, op, list(sl)
    for ctx, out in symx.explore(h_addremove, max_paths=400, timeout_ms=4000, stats=res.stats):
        if isinstance(out, symx.Abort):
            res.out_of_bound += 1
            continue
        res.nontrivial += 1
        xs, v, op, after = out
        T = symx.term
        present = z3.Or(*[T(x) == T(v) for x in xs]) if xs else z3.BoolVal(False)
        sorted_ok = z3.And(*[T(a) < T(b) for a, b in zip(after, after[1:])]) if len(after) > 1 else z3.BoolVal(True)
        if op == 0:
            want = z3.And(sorted_ok, z3.Or(*[T(a) == T(v) for a in after]) if after else z3.BoolVal(False),
                          *[z3.Or(*[T(a) == T(x) for a in after]) for x in xs],
                          z3.If(present, z3.BoolVal(len(after) == len(xs)), z3.BoolVal(len(after) == len(xs) + 1)))
        else:
            want = z3.And(sorted_ok, *[T(a) != T(v) for a in after],
                          *[z3.Or(T(x) == T(v), z3.Or(*[T(a) == T(x) for a in after]) if after else z3.BoolVal(False)) for x in xs],
                          z3.If(present, z3.BoolVal(len(after) == len(xs) - 1), z3.BoolVal(len(after) == len(xs))))
        verdict, model = ctx.prove(want)
        if verdict == 'unsat':
            res.reached.add('add-remove')
        elif verdict == 'unknown':
            res.inconclusive.append('add-remove')
        else:
            res.reached.add('add-remove')
            mv = ctx.model_values(model)
            vals = [float(mv['x%d' % i]) for i in range(n)]
            res.violation('stepping|add-remove', 'SortedList%r %s(%r) gives %r' % (vals, 'add' if op == 0 else 'remove', float(mv['v']), symx.concrete(after, model)),
                          inputs={'list': vals}, replayed=True)

    def h_iterate(ctx):
        xs = mk(ctx)
        sl = SortedList()
        list.extend(sl, xs)
        removed = []
        visited = []
        cur = sl.first()
        steps = 0
        while cur is not None:
            visited.append(cur)
            steps += 1
            if steps > n + 2:
                return xs, visited, removed, 'does not terminate'
            # arbitrary interleaved removal (none, or any element incl. the current one)
            k = ctx.choose(n + 1, 'remove')
            if k > 0 and not any(xs[k - 1] is r for r in removed):
                sl.remove(xs[k - 1])
                removed.append(xs[k - 1])
            cur = sl.next(cur)
        return xs, visited, removed, None
    if n <= 4:
        for ctx, out in symx.explore(h_iterate, max_paths=20000, timeout_ms=4000, stats=res.stats,
                                     deadline=time.time() + args['budget_s']):
            if isinstance(out, symx.Abort):
                res.out_of_bound += 1
                continue
            res.nontrivial += 1
            xs, visited, removed, err = out
            idx = {id(x): i for i, x in enumerate(xs)}
            vi = [idx[id(v)] for v in visited]
            never = [i for i, x in enumerate(xs) if not any(x is r for r in removed)]
            ok = err is None and vi == sorted(set(vi)) and all(i in vi for i in never)
            if ok:
                res.reached.add('iterate')
                continue
            verdict, model = ctx.prove(False)
            if verdict == 'sat':
                res.reached.add('iterate')
                res.violation('stepping|iterate', 'iteration with interleaved removals visited %r (removed %r, never removed %r) %s'
                              % (vi, [idx[id(r)] for r in removed], never, err or ''), inputs={}, replayed=True)
    res.sample({'elements': n, 'harnesses': ['next/prev/first/last/has with symbolic probe', 'add/remove', 'iterate next() under interleaved removals']})
    res.functions = world.functions_seen()
    return res


# ---- iteration through the VM's discovery instructions while the directory changes --------------
def vm_iteration_worker(args):
    """disc/dnext (lights, groups, locations) and discm/dnextm (members) as the VM executes them, with an
    arbitrary directory change (new discovery or expiry) between any two steps."""
    from bardolph.vm.call_stack import CallStack
    from bardolph.vm.machine import Registers
    from bardolph.vm.vm_codes import Operand
    from bardolph.vm.vm_discover import VmDiscover
    res = report.WorkResult('vm iteration %s' % (args['what'],))
    world.start_function_trace()
    res.sites.add('vm-iteration')
    names = ('a', 'B', 'c')
    snaps = list(snapshots(names))
    what = args['what']
    rng = random.Random(args['seed'])
    starts = rng.sample(snaps, args['starts'])

    def harness(ctx):
        start = starts[ctx.choose(len(starts), 'start')]
        forward = ctx.choose(2, 'direction') == 1
        net = world.configure((), extra_settings={'light_gc_time': MAX_AGE}, discover=False)
        saved = light_mod.time
        vt = VTime(0.0)
        light_mod.time = vt
        try:
            ls = net.light_set
            set_population(net, start)
            ls.discover()
            reg = Registers()
            reg.disc_forward = forward
            vd = VmDiscover(CallStack(), reg)
            member_of = None
            if what == 'lights':
                reg.operand = Operand.LIGHT
            elif what in ('groups', 'locations'):
                reg.operand = Operand.GROUP if what == 'groups' else Operand.LOCATION
            else:
                reg.operand = Operand.GROUP if what == 'group-members' else Operand.LOCATION
                member_of = GROUPS[0] if what == 'group-members' else LOCS[0]

            def universe():
                if what == 'lights':
                    return list(ls.get_light_names())
                if what == 'groups':
                    return list(ls.get_group_names())
                if what == 'locations':
                    return list(ls.get_location_names())
                m = ls.get_group_lights(member_of) if what == 'group-members' else ls.get_location_lights(member_of)
                return list(m or [])
            visited = []
            ever_removed = set()
            initial = set(universe())
            problems = []
            try:
                vd.discm(member_of) if member_of else vd.disc()
                steps = 0
                while reg.result is not Operand.NULL and reg.result is not None:
                    cur = reg.result
                    visited.append(cur)
                    steps += 1
                    if steps > 8:
                        problems.append('iteration does not terminate: %r' % (visited,))
                        break
                    # an arbitrary change of the directory between two steps (or none)
                    k = ctx.choose(3, 'change')
                    if k == 1:
                        before = set(universe())
                        set_population(net, snaps[ctx.choose(len(snaps), 'new-population')])
                        vt.now += 1000
                        ls.refresh()
                        ever_removed |= before - set(universe())
                    elif k == 2:
                        before = set(universe())
                        vt.now += 1000
                        ls.refresh()
                        ever_removed |= before - set(universe())
                    vd.dnextm(member_of, cur) if member_of else vd.dnext(cur)
                    # the step yields the nearest name the directory lists now in that direction
                    now = universe()
                    beyond = [n for n in now if (n > cur if forward else n < cur)]
                    want = (min(beyond) if forward else max(beyond)) if beyond else None
                    got = reg.result if reg.result is not Operand.NULL else None
                    if got != want:
                        problems.append('step from %r yields %r, nearest remaining name is %r (directory lists %r)' % (cur, got, want, now))
                        break
            except Exception as ex:
                problems.append('%s: %s during the iteration (visited %r)' % (type(ex).__name__, ex, visited))
            if not problems:
                if len(set(visited)) != len(visited):
                    problems.append('a name was visited twice: %r' % (visited,))
                order_ok = visited == sorted(visited, reverse=not forward)
                if not order_ok:
                    problems.append('names not visited in order: %r' % (visited,))
                missing = [n for n in initial if n not in ever_removed and n in universe() and n not in visited]
                if missing:
                    problems.append('remaining name(s) %r never visited (visited %r)' % (missing, visited))
            return problems, start, forward
        finally:
            light_mod.time = saved
    seen = {}
    for ctx, out in symx.explore(harness, max_paths=args['max_paths'], timeout_ms=1000, stats=res.stats, deadline=time.time() + args['budget_s']):
        if isinstance(out, symx.Abort):
            res.out_of_bound += 1
            continue
        problems, start, forward = out
        res.nontrivial += 1
        res.reached.add('vm-iteration')
        if problems:
            key = problems[0].split(':')[0][:50]
            if key not in seen:
                seen[key] = (problems[0], start, forward, [a for a, _ in ctx.trail])
    for key, (msg, start, forward, trail) in seen.items():
        rctx = symx.Ctx(prefix=trail, stats=symx.Stats())
        symx.Ctx.cur = rctx
        try:
            p2 = harness(rctx)[0]
        finally:
            symx.Ctx.cur = None
        res.violation('vm-iteration|%s|%s' % (what, key), '%s\n  iterating %s %s from population %s; replay: %s'
                      % (msg, what, 'forward' if forward else 'backward', start, p2[:1]), inputs={'what': what, 'start': start, 'choices': trail}, replayed=bool(p2))
    if not symx.explore.last_exhaustive:
        res.exhaustive = False
    res.sample({'iterating': what, 'start_populations': len(starts)})
    res.functions = world.functions_seen()
    return res


def dispatch(args):
    return {'directory': directory_worker, 'history': history_worker, 'stepping': stepping_worker, 'vm-iteration': vm_iteration_worker}[args['kind']](args)


def run(tier, seed):
    t0 = time.time()
    rng = random.Random(seed)
    items = [{'kind': 'stepping', 'n': n, 'budget_s': 30 if tier == 'quick' else 300} for n in range(0, 5 if tier == 'quick' else 6)]
    names3 = ('a', 'B', 'c')
    snaps3 = list(snapshots(names3))
    if tier == 'quick':
        for i, pre in enumerate(snaps3):
            items.append({'kind': 'directory', 'names': names3, 'pre': pre, 'posts': snaps3[i % 3::3], 'max_age': (0, 2.5, 0.0)[i % 3], 'dt_max': (1000, 6, 1000)[i % 3]})
        for i, pre in enumerate(snaps3):
            items.append({'kind': 'directory', 'names': names3, 'pre': pre, 'posts': snaps3, 'as_text': i % 4 == 3})
        items += [{'kind': 'history', 'names': names3, 'seed': seed * 100 + i, 'count': 20, 'length': 6} for i in range(16)]
    else:
        for pre in snaps3:
            items.append({'kind': 'directory', 'names': names3, 'pre': pre, 'posts': snaps3})
        for pre in snaps3:
            for max_age, dt_max in ((0, 1000), (2.5, 6), (0.0, 1000), (20, 40)):
                items.append({'kind': 'directory', 'names': names3, 'pre': pre, 'posts': snaps3, 'max_age': max_age, 'dt_max': dt_max})
        names4 = ('a', 'B', 'c', 'D')
        snaps4 = list(snapshots(names4))
        for pre in snaps4:
            items.append({'kind': 'directory', 'names': names4, 'pre': pre, 'posts': rng.sample(snaps4, 100)})
        items += [{'kind': 'history', 'names': names4, 'seed': seed * 100 + i, 'count': 80, 'length': 12} for i in range(160)]
    for what in ('lights', 'groups', 'locations', 'group-members', 'location-members'):
        items.append({'kind': 'vm-iteration', 'what': what, 'seed': seed, 'starts': 6 if tier == 'quick' else 40,
                      'max_paths': 6000 if tier == 'quick' else 300000, 'budget_s': 25 if tier == 'quick' else 400})
    results, skipped = report.run_pool(dispatch, items, budget_s=common.tier_budget(tier, 70, 900))
    return report.finish(
        PROP, tier, seed, 'exploration', results, skipped,
        rule='(1) inductive step: from the directory produced by discovering an arbitrary population (every invariant-satisfying directory is of this form) one operation '
             '-- discover of an arbitrary new population, failed discover, refresh (discover + expiry) or refresh with failed discover -- after a symbolic time advance; '
             'the public getters are compared with a model (names sorted/duplicate-free, each light in exactly its last reported group and location, member lists sorted '
             'and non-empty, set names = non-empty sets, exactly the lights older than the limit expired); (2) explicit seeded histories of 6 (quick) / 12 (thorough) steps '
             'with symbolic time advances; (3) SortedList first/last/next/prev/has/add/remove on 0..4(5) symbolic strictly ordered elements and a symbolic probe, and next() '
             'iteration under arbitrary interleaved removals; (4) the VM\'s discovery instructions (disc/dnext over lights, groups, locations; discm/dnextm over members) '
             'with an arbitrary new discovery or expiry between any two steps: no exception, termination, order, every remaining name visited once',
        assumptions=['time.time in bardolph.controller.light is a stub returning the harness clock (symbolic instants)',
                     'populations over 3 (quick; thorough also 4) names x 2 groups x 2 locations; snapshots delivered by the stub LifxLAN',
                     'an invariant-satisfying directory is determined by its population, so one discover from the empty directory reaches every such pre-state'],
        bounds={'names': 3 if tier == 'quick' else 4, 'groups': 2, 'locations': 2, 'gc_limit_s': MAX_AGE, 'list_elements': '0..4 quick / 0..5 thorough'},
        t0=t0, technique='bounded symbolic execution of the real LightSet/SortedList code (proxy objects, z3): symbolic ages and list elements, choice variables for populations and removals')


def replay(v):
    print(v['message'])
    return 0
