"""Shared plumbing for the script-level checks (C01, C03, C04, C05, C15, C18, C19)."""
import os
import time

from vlib import report, scripth, world, symx


def script_worker(args):
    """args: dict(case=Case, timeout_ms, max_paths, budget_s).  -> WorkResult"""
    import sys
    sys.setrecursionlimit(20000)
    case = args['case']
    res = report.WorkResult(case.tag)
    world.start_function_trace()
    deadline = time.time() + args.get('budget_s', 60)
    scripth.explore_case(case, res, timeout_ms=args.get('timeout_ms', 4000),
                         max_paths=args.get('max_paths', 3000), deadline=deadline,
                         monitor=args.get('monitor'), extra_sym=args.get('extra_sym'),
                         extra_concrete=args.get('extra_concrete'),
                         site=args.get('site', 'trace'))
    res.functions = world.functions_seen()
    return res


def tier_budget(tier, quick_s, thorough_s):
    env = os.environ.get('VERIF_BUDGET_S')
    if env:
        return float(env)
    return thorough_s if tier == 'thorough' else quick_s


SCRIPT_ASSUMPTIONS = [
    'real-mode arithmetic: Python floats are modelled as exact reals (float rounding outside the claim)',
    'builtin float() in bardolph.controller.units rebound to the identity on numbers for the symbolic runs (restored for replays)',
    'lifxlan device objects, LifxLAN, the clock bound to i_lib.Clock and the output sink are recording stubs (vlib/world.py); the real lifx_lan_light wrappers, LifxLanApi and LightSet run on top of them',
    'reference semantics vlib/refsem.py is the oracle for what the source says; rounded fields must be integers within 1/2 of the exact clamped value',
    'numeric literals travel through the compiler as sentinel integers and are replaced by symbolic values in the compiled Instruction operands (numeral parsing is covered by C16)',
    'symbolic values range over the interior of the documented register ranges (edges: C07)',
    'time and duration literals are 0 or at least 1/1000 of their unit (units.py snaps raw times below 2**-17 ms to 0; a shorter wait and no wait are the same nearest-millisecond setting)',
]
