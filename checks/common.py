"""Shared plumbing for the script-level checks (C01, C03, C04, C05, C15, C18, C19)."""
import os
import time

from vlib import report, scripth, world, symx


def script_worker(args):
    """args: dict(case=Case, timeout_ms, max_paths, budget_s).  -> WorkResult"""
    import sys
    sys.setrecursionlimit(20000)
    case = args['case']
    res = report.WorkResult(case.tag)
    world.start_function_trace()
    deadline = time.time() + args.get('budget_s', 60)
    scripth.explore_case(case, res, timeout_ms=args.get('timeout_ms', 4000),
                         max_paths=args.get('max_paths', 3000), deadline=deadline,
                         monitor=args.get('monitor'), extra_sym=args.get('extra_sym'),
                         extra_concrete=args.get('extra_concrete'),
                         site=args.get('site', 'trace'))
    res.functions = world.functions_seen()
    return res


def tier_budget(tier, quick_s, thorough_s):
    from vlib import report
    report.TIER[0] = tier          # run_pool interleaves the families of work items in the thorough tier
    env = os.environ.get('VERIF_BUDGET_S')
    if env:
        return float(env)
    return thorough_s if tier == 'thorough' else quick_s


def fit_item_budgets(items, total_s):
    """Thorough tiers with few, long work items: cap every item's own time budget so that all of them are handed out
    within the tier's budget (items run in waves of one per worker process)."""
    import math
    procs = int(os.environ.get('VERIF_PROCS') or min(16, os.cpu_count() or 4))
    waves = max(1, math.ceil(len(items) / max(1, procs)))
    cap = total_s / waves
    for it in items:
        if isinstance(it, dict) and 'budget_s' in it:
            it['budget_s'] = min(it['budget_s'], cap)
    return items


SCRIPT_ASSUMPTIONS = [
    'real-mode arithmetic: Python floats are modelled as exact reals (float rounding outside the claim)',
    'builtin float() in bardolph.controller.units rebound to the identity on numbers for the symbolic runs (restored for replays)',
    'lifxlan device objects, LifxLAN, the clock bound to i_lib.Clock and the output sink are recording stubs (vlib/world.py); the real lifx_lan_light wrappers, LifxLanApi and LightSet run on top of them',
    'reference semantics vlib/refsem.py is the oracle for what the source says; rounded fields must be integers within 1/2 of the exact clamped value',
    'numeric literals travel through the compiler as sentinel integers and are replaced by symbolic values in the compiled Instruction operands (numeral parsing is covered by C16)',
    'symbolic values range over the interior of the documented register ranges (edges: C07)',
    'time and duration literals are 0 or at least 1/1000 of their unit (units.py snaps raw times below 2**-17 ms to 0; a shorter wait and no wait are the same nearest-millisecond setting)',
]


def fixed_scripts(res, site, entries, specs=None):
    """Small scripts whose meaning the documentation fixes outright: each must compile and print exactly the listed
    values ('\\n' stands for a line end).  entries: (script, expected list).  Violations are replayed by construction
    (plain values, real compiler and VM)."""
    from bardolph.parser.parse import Parser
    from bardolph.vm.machine import Machine
    from vlib import world, scripth
    res.sites.add(site)
    for text, want in entries:
        res.nontrivial += 1
        net = world.configure(specs) if specs is not None else world.configure()
        world.uninstall_real_mode()
        p = Parser()
        try:
            ok = p.parse(text)
        except Exception as ex:
            res.violation('%s|compiler raises' % site, 'compiler raises %s: %s\n  script: %s' % (type(ex).__name__, ex, text), inputs={'script': text}, replayed=True)
            continue
        res.reached.add(site)
        if not ok:
            res.violation('%s|rejected' % site, 'a valid script is rejected: %s\n  script: %s' % (p.get_errors().strip(), text), inputs={'script': text}, replayed=True)
            continue
        m = Machine()
        m.reset()
        scripth._instrument(m, 20000)
        try:
            m.run(p.get_program())
        except scripth.StepBound:
            res.violation('%s|does not end' % site, 'still running after 20000 VM instructions\n  script: %s' % text, inputs={'script': text}, replayed=True)
            continue
        outs = ['\n' if e[0] == 'newline' else e[1] for e in net.trace if e[0] in ('out', 'newline')]
        if net.aborted or outs != list(want):
            res.violation('%s|wrong output' % site, 'prints %r%s, expected %r\n  script: %s' % (outs, ' (%s)' % net.aborted if net.aborted else '', list(want), text),
                          inputs={'script': text}, replayed=True)
    world.install_real_mode()
