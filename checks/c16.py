"""C16 -- compilation depends only on the token sequence; every documented name is usable."""
import itertools
import random
import re
import time

import z3

from bardolph.parser.lex import Lex
from bardolph.parser.parse import Parser
from bardolph.parser.token import TokenTypes
from bardolph.vm.machine import Machine

from vlib import report, rx2z3, scripth, symx, world
from checks import common

PROP = 'C16'
# docs/language.rst: lower-case keywords, register names, the four abbreviations
DOC_KEYWORDS = ['all', 'and', 'as', 'assign', 'at', 'begin', 'break', 'breakpoint', 'column', 'cycle', 'default', 'define',
                'else', 'end', 'from', 'get', 'group', 'if', 'in', 'location', 'logical', 'not', 'off', 'on', 'or', 'print',
                'printf', 'println', 'pause', 'raw', 'row', 'repeat', 'return', 'rgb', 'set', 'stage', 'to', 'units', 'while',
                'with', 'wait', 'zone']
DOC_REGISTERS = ['hue', 'saturation', 'brightness', 'kelvin', 'red', 'green', 'blue', 'duration', 'time', 'default']
DOC_ABBREV = ['H', 'S', 'B', 'K']
BUILTINS = ['round', 'trunc', 'floor', 'ceil', 'sqrt', 'sin', 'cos', 'tan', 'asin', 'acos', 'atan', 'cycle', 'random']
RESERVED = set(DOC_KEYWORDS + DOC_REGISTERS + DOC_ABBREV)


def ci(word):
    parts = [z3.Union(z3.Re(c.lower()), z3.Re(c.upper())) if c.isalpha() else z3.Re(c) for c in word]
    return parts[0] if len(parts) == 1 else z3.Concat(*parts)


def use_name(name):
    """Compile and run four scripts using `name` as variable, macro, parameter and routine name.
    Returns None or a description of the failure."""
    scripts = {
        'variable': ('assign %s 7 print %s' % (name, name), [7]),
        'macro': ('define %s 8 print %s' % (name, name), [8]),
        'parameter': ('define show_it with %s print %s show_it 9' % (name, name), [9]),
        'routine': ('define %s with qq print qq %s 10 [%s 11]' % (name, name, name), [10, 11]),
    }
    for role, (text, expect) in scripts.items():
        net = world.configure(())
        p = Parser()
        try:
            ok = p.parse(text)
        except Exception as ex:
            return '%s %r: compiler raises %s: %s' % (role, name, type(ex).__name__, ex)
        if not ok:
            return '%s %r: rejected: %s' % (role, name, p.get_errors().strip())
        m = Machine()
        m.reset()
        scripth._instrument(m, 300)
        m.run(p.get_program())
        outs = [e[1] for e in net.trace if e[0] == 'out']
        if outs != expect or net.aborted:
            return '%s %r: script prints %r instead of %r (%s)' % (role, name, outs, expect, net.aborted)
    return None


def names_worker(args):
    res = report.WorkResult('identifier freedom')
    world.start_function_trace()
    res.sites.update(['cascade-lemma', 'table-collisions', 'witness-names'])
    NAME = rx2z3.translate(Lex._NAME_SPEC).re
    s = z3.String('s')
    tables = sorted(set(list(TokenTypes.__members__) + [w.upper() for w in Lex._REG_LIST] + DOC_ABBREV + [w.upper() for w in BUILTINS]))
    # lemma 1: no alternative tried before NAME (time pattern, comparison, string, number) can match at the start of a name
    earlier = []
    for spec in (Lex._CMP_SPEC, Lex._LITERAL_STRING_SPEC, Lex._NUMBER_SPEC):
        earlier.append(rx2z3.translate(spec).re)
    tp = rx2z3.translate(Lex._TIME_PATTERN.pattern)
    earlier.append(tp.re)
    sol = z3.Solver()
    sol.set('timeout', 30000)
    sol.add(z3.InRe(s, NAME), z3.Length(s) <= 8, z3.InRe(s, z3.Concat(z3.Union(*earlier), z3.Star(rx2z3.ASCII))))
    r = str(sol.check())
    res.stats.queries += 1
    res.nontrivial += 1
    res.reached.add('cascade-lemma')
    if r == 'unsat':
        res.stats.proved += 1
    elif r == 'sat':
        w = rx2z3.decode(sol.model().eval(s, model_completion=True).as_string())
        msg = use_name(w)
        res.violation('names|earlier-alternative', 'identifier %r starts with something an earlier token alternative matches: %s' % (w, msg),
                      inputs={'name': w}, replayed=msg is not None)
    else:
        res.inconclusive.append('cascade lemma')
    # region that table look-ups can affect: case variants of the words in the lexer's tables.  The solver
    # enumerates every identifier (<= 8 chars) in that region that is not a documented reserved word.
    region = z3.Union(*[ci(w) for w in tables if len(w) <= 8])
    sol = z3.Solver()
    sol.set('timeout', 30000)
    sol.add(z3.InRe(s, NAME), z3.Length(s) <= 8, z3.InRe(s, region))
    for w in RESERVED | set(BUILTINS):
        sol.add(s != z3.StringVal(w))
    limit = args['collision_limit']
    count = 0
    bad = {}
    while count < limit:
        r = str(sol.check())
        res.stats.queries += 1
        if r != 'sat':
            if r == 'unsat':
                res.extra['collision_region_exhausted'] = True
            break
        w = rx2z3.decode(sol.model().eval(s, model_completion=True).as_string())
        sol.add(s != z3.StringVal(w))
        count += 1
        res.nontrivial += 1
        res.reached.add('table-collisions')
        msg = use_name(w)
        if msg:
            bad.setdefault(w.lower(), (w, msg))
    for low, (w, msg) in sorted(bad.items())[:12]:
        res.violation('names|%s' % ('token-class' if low.upper() in TokenTypes.__members__ and low not in DOC_KEYWORDS else 'case-variant'),
                      'documented-form identifier %r (not a reserved word) cannot be used: %s' % (w, msg), inputs={'name': w}, replayed=True)
    res.extra['collision_candidates'] = count
    # witnesses outside that region, of every length and with every first/last character class
    outside = z3.And(z3.InRe(s, NAME), z3.Not(z3.InRe(s, region)))
    rng = random.Random(args['seed'])
    wcount = 0
    for length in range(1, 9):
        for first in ('lower', 'upper', 'underscore'):
            fc = {'lower': z3.Range('a', 'z'), 'upper': z3.Range('A', 'Z'), 'underscore': z3.Re('_')}[first]
            wit, _ = rx2z3.witnesses(z3.And(outside, z3.Length(s) == length, z3.InRe(s, z3.Concat(fc, z3.Star(rx2z3.ASCII)))), s, args['witnesses'])
            for w in wit:
                w = rx2z3.decode(w)
                wcount += 1
                res.nontrivial += 1
                res.reached.add('witness-names')
                if w in RESERVED or w in BUILTINS:
                    continue
                msg = use_name(w)
                if msg:
                    res.violation('names|ordinary', 'identifier %r cannot be used: %s' % (w, msg), inputs={'name': w}, replayed=True)
    res.sample({'collision_candidates_tried': count, 'witness_names_tried': wcount})
    res.functions = world.functions_seen()
    return res


def strings_worker(args):
    """"n" is one LITERAL_STRING token with content n for every n without double quote / line break."""
    res = report.WorkResult('string literals')
    world.start_function_trace()
    res.sites.update(['string-lemma', 'string-witnesses'])
    tr = rx2z3.translate(Lex._LITERAL_STRING_SPEC)
    s = z3.String('n')
    noq = z3.InRe(s, z3.Star(z3.Intersect(rx2z3.ASCII, z3.Complement(z3.Union(z3.Re('"'), z3.Re('\n'), z3.Re('\r'))))))
    quoted = z3.Concat(z3.StringVal('"'), s, z3.StringVal('"'))
    sol = z3.Solver()
    sol.set('timeout', 30000)
    sol.add(noq, z3.Length(s) <= 8, z3.Not(z3.InRe(quoted, tr.re)))
    r = str(sol.check())
    res.stats.queries += 1
    res.nontrivial += 1
    res.reached.add('string-lemma')
    if r == 'unsat':
        res.stats.proved += 1
    elif r == 'sat':
        w = rx2z3.decode(sol.model().eval(s, model_completion=True).as_string())
        res.violation('strings|not-in-language', 'string content %r: "%s" is not matched by the string regex' % (w, w), inputs={'content': w}, replayed=True)
    else:
        res.inconclusive.append('string lemma')

    def lex_ok(text, content_list):
        toks = list(Lex(text).tokens())
        got = [(t.token_type, t.content) for t in toks[:-1]]
        exp = [(TokenTypes.SET, 'set')] + [(TokenTypes.LITERAL_STRING, c) for c in content_list[:1]]
        return got, exp
    # witnesses: contents with special characters, alone on a line and followed by another string
    specials = ['#', '{', '}', '[', ']', '\\', ' ', '\t', "'", '%', ':', '*', '-', 'end', '1:00']
    wit = []
    for sp in specials:
        ws, _ = rx2z3.witnesses(z3.And(noq, z3.Length(s) <= 6, z3.Length(s) >= 1, z3.Contains(s, z3.StringVal(sp))), s, args['witnesses'])
        wit += [rx2z3.decode(w) for w in ws]
    ws, _ = rx2z3.witnesses(z3.And(noq, z3.Length(s) <= 5, z3.Length(s) >= 1, z3.SuffixOf(z3.StringVal('\\'), s)), s, 4)
    wit += [rx2z3.decode(w) for w in ws]
    for w in dict.fromkeys(wit):
        res.nontrivial += 1
        res.reached.add('string-witnesses')
        for text, expect in (('set "%s"' % w, [w]), ('set "%s" and "B"' % w, [w, 'B'])):
            toks = [t for t in Lex(text).tokens()][:-1]
            strs = [t.content for t in toks if t.is_a(TokenTypes.LITERAL_STRING)]
            if strs != expect or toks[0].token_type is not TokenTypes.SET:
                # the recorded known finding is exactly: content ends in a backslash AND another quote follows on the line
                kind = 'backslash-before-quote-then-another-string' if (w.endswith('\\') and len(expect) == 2) else \
                    ('ends-in-backslash-alone' if w.endswith('\\') else 'other')
                res.violation('strings|%s' % kind, 'string content %r in %r is lexed as %r' % (w, text, [(t.token_type.name, t.content) for t in toks]),
                              inputs={'content': w, 'text': text}, replayed=True)
                break
    # every character of the alphabet the lemma ranges over, inside a string, through the real lexer
    # (the lemma is about the string regex; line splitting and comment cutting happen outside it)
    for code in range(1, 127):
        ch_ = chr(code)
        if ch_ in '"\n\r':
            continue
        for content in ('x%sy' % ch_, ch_ if ch_ != '\\' else 'z' + ch_ + 'z', '%sq' % ch_):
            text = 'set "%s"' % content
            res.nontrivial += 1
            try:
                toks = [t for t in Lex(text).tokens()][:-1]
                got = [(t.token_type.name, t.content) for t in toks]
            except Exception as ex:
                got = 'lexer raises %s: %s' % (type(ex).__name__, ex)
            if got != [('SET', 'set'), ('LITERAL_STRING', content)]:
                res.violation('strings|character-%s' % ('control' if code < 32 else 'printable'),
                              'the string %r (character code %d) is lexed as %r' % (content, code, got), inputs={'text': text}, replayed=True)
                break
    res.sample({'witness_contents': list(dict.fromkeys(wit))[:8]})
    res.functions = world.functions_seen()
    return res


# ---- a string is a value whatever its content looks like ----------------------------------------------
STRING_USES = [
    ('print', 'print "%s"'),
    ('variable', 'assign s "%s" print s'),
    ('macro', 'define m "%s" print m'),
    ('argument', 'define f with x begin print x end f "%s"'),
    ('bracketed-argument', 'define f with x begin print x end [f "%s"]'),
    ('returned', 'define f begin return "%s" end print [f]'),
    ('in-braces', 'assign s {"%s"} print s'),
    ('printf-value', 'printf "{}" "%s"'),
    ('printf-named', 'assign s "%s" printf "{s}"'),
    ('compared', 'assign s "%s" if {s == "%s"} print 1 else print 0'),
    ('argument-after-not', 'define f2 with a b begin print b end f2 not 1 "%s"'),
    ('argument-after-braces', 'define f2 with a b begin print b end f2 {1 + 1} "%s"'),
]


def string_use_worker(args):
    """Every content from the pool -- each lexeme of the language (keywords, registers, operators, brackets, numbers,
    time patterns), every printable character alone, and solver witnesses of the string language -- as the complete
    content of a quoted string in every position a value can take: it compiles, and the value is that text."""
    res = report.WorkResult('strings as values [%s]' % args['label'])
    world.start_function_trace()
    res.sites.add('string-use')
    for content in args['contents']:
        for use, template in STRING_USES:
            text = template.replace('%s', content)
            res.nontrivial += 1
            net = world.configure()
            world.uninstall_real_mode()
            p = Parser()
            try:
                ok = p.parse(text)
            except Exception as ex:
                res.violation('string-use|%s|compiler-raises' % use, 'compiler raises %s: %s\n  script: %s' % (type(ex).__name__, ex, text), inputs={'script': text}, replayed=True)
                continue
            res.reached.add('string-use')
            if not ok:
                res.violation('string-use|%s|rejected' % use, 'a quoted string with content %r is not accepted as a value: %s\n  script: %s'
                              % (content, p.get_errors().strip(), text), inputs={'script': text}, replayed=True)
                continue
            m = Machine()
            m.reset()
            scripth._instrument(m, 300)
            m.run(p.get_program())
            outs = [e[1] for e in net.trace if e[0] == 'out']
            want = [1] if use == 'compared' else [content]
            if net.aborted or outs != want:
                res.violation('string-use|%s|wrong-value' % use, 'a quoted string with content %r used as a value gives %r%s, expected %r\n  script: %s'
                              % (content, outs, ' (%s)' % net.aborted if net.aborted else '', want, text), inputs={'script': text}, replayed=True)
    res.sample({'contents': args['contents'][:10], 'uses': [u for u, _ in STRING_USES]})
    res.functions = world.functions_seen()
    return res


def string_contents(n_witnesses):
    tr = rx2z3.translate(Lex._LITERAL_STRING_SPEC)
    s = z3.String('n')
    noq = z3.InRe(s, z3.Star(z3.Intersect(rx2z3.ASCII, z3.Complement(z3.Union(z3.Re('"'), z3.Re('\n'), z3.Re('\r'), z3.Re(chr(92)))))))
    pool = list(DOC_KEYWORDS) + DOC_REGISTERS + DOC_ABBREV + BUILTINS
    pool += ['<', '<=', '>', '>=', '==', '!=', '+', '-', '*', '/', '%', '^', '(', ')', '{', '}', '[', ']', '#', '# c', ':', '*:*', '12:30', '1*:*5',
             '5', '-5', '2.5', '1e3', '', ' ', '  x  ', '{}', '{0}', '{s}', '{ 1 + 2 }', '[f 1]', 'not 1', '- 1', 'a and b', 'x y', 'If', 'EOF', 'number', 'literal_string']
    pool += [chr(c) for c in range(32, 127) if chr(c) not in '"' + chr(92)]
    ws, _ = rx2z3.witnesses(z3.And(noq, z3.Length(s) <= 5, z3.Length(s) >= 2), s, n_witnesses)
    pool += [rx2z3.decode(w) for w in ws]
    return list(dict.fromkeys(pool))


def numerals_worker(args):
    res = report.WorkResult('numerals')
    world.start_function_trace()
    res.sites.update(['numeral-lemma', 'numeral-witnesses'])
    NUM = rx2z3.translate(Lex._NUMBER_SPEC).re
    d = z3.Range('0', '9')
    pyfloat = z3.Union(z3.Concat(z3.Plus(d), z3.Option(z3.Concat(z3.Re('.'), z3.Star(d)))), z3.Concat(z3.Re('.'), z3.Plus(d)))
    s = z3.String('s')
    sol = z3.Solver()
    sol.set('timeout', 30000)
    sol.add(z3.InRe(s, NUM), z3.Length(s) <= 10, z3.Not(z3.InRe(s, pyfloat)))
    r = str(sol.check())
    res.stats.queries += 1
    res.nontrivial += 1
    res.reached.add('numeral-lemma')
    if r == 'unsat':
        res.stats.proved += 1
    elif r == 'sat':
        w = rx2z3.decode(sol.model().eval(s, model_completion=True).as_string())
        res.violation('numerals|unconvertible', 'numeral %r is a NUMBER token but not a Python int/float literal' % w, inputs={'text': w}, replayed=True)
    from fractions import Fraction
    for length in range(1, 8):
        for shape in (z3.Plus(d), z3.Concat(z3.Star(d), z3.Re('.'), z3.Plus(d)), z3.Concat(z3.Re('0'), z3.Plus(d))):
            wit, _ = rx2z3.witnesses(z3.And(z3.InRe(s, NUM), z3.InRe(s, shape), z3.Length(s) == length), s, args['witnesses'])
            for w in wit:
                w = rx2z3.decode(w)
                res.nontrivial += 1
                res.reached.add('numeral-witnesses')
                for text, sign in (('hue %s' % w, 1), ('hue -%s' % w, -1), ('hue {%s}' % w, 1), ('assign q %s' % w, 1)):
                    world.configure(())
                    p = Parser()
                    try:
                        ok = p.parse(text)
                    except Exception as ex:
                        res.violation('numerals|crash', '%r: %s' % (text, ex), inputs={'text': text}, replayed=True)
                        continue
                    vals = [i.param0 for i in p.get_program() if isinstance(i.param0, (int, float)) and not isinstance(i.param0, bool)]
                    want = sign * Fraction(w)
                    if not ok or not vals or abs(Fraction(vals[0]) - want) > abs(want) * Fraction(1, 10 ** 15):
                        res.violation('numerals|value', 'numeral in %r compiled to %r (accepted=%s)' % (text, vals[:1], ok), inputs={'text': text}, replayed=True)
    res.sample({'lemma': 'L(_NUMBER_SPEC) within the strings int()/float() accept'})
    res.functions = world.functions_seen()
    return res


# ---- re-layout ---------------------------------------------------------------------------
BASE = [
    'hue 120 saturation 50 brightness 25 kelvin 2700 duration 1.5 set all',
    'define azure 240 hue azure set "A" and group "G1" on location "L 1"',
    'assign x 5 if { x > 3 and x < 9 } begin on all end else off all',
    'repeat 3 with h from 0 to 360 begin hue h set all end',
    'define r with p q begin brightness { p * q } set "A" return { p + 1 } end assign y [ r 2 3 ] r 1 y',
    'repeat all as lt with b cycle begin brightness b set lt if { b >= 100 } break end',
    'time at 8:00 or 1*:30 on all time 2 off "A"',
    'set "M" begin hue 10 stage row 0 1 column 1 stage row 2 end set "Z" zone 0 3',
    'printf "{} {hue}" 1 println "x # y" print { ( 1 + 2 ) * 3 ^ 2 % 5 - -4 / 2 }',
    'assign a 1 assign b { a != 2 } assign c { a <= 2 or a == 3 } hue { -a }',
    # time patterns next to brackets and comments
    'define w with t u begin on all end [ w 12:30 2 ] [ w 3 1*:30 ] time at 8:00 or *:15 on all',
]
OPCHARS = set('[]{}()+-*/^%<>=!')
SEPS = [' ', '\t', '\n', '  \n\t ', ' # a comment end begin {\n', '# a comment right behind the token\n', '']


def lexemes(text):
    """Source lexemes of the canonical text (whitespace separated, strings kept whole)."""
    return re.findall(r'"[^"]*"|\S+', text)


def glue_allowed(a, b):
    """May a and b be written with nothing between them?  Only next to an operator, brace or bracket."""
    if a[-1] in OPCHARS or b[0] in OPCHARS:
        # two operator characters in a row could fuse into another operator (<=, ==, !=) or a sign
        if a[-1] in '<>=!-+' and b[0] in '=-+<>':
            return False
        if a[-1] == '"' or b[0] == '"':
            return True
        return True
    return False


POISON = ['set "M" begin stage row', 'repeat 2 begin define q9 begin if {1 > 0} begin', 'define q8 with a begin set "M" begin hue', 'hue {1 + (2']


def listing(text, used=None):
    """Instruction listing of text; with `used`, on that Parser object after it has compiled a text that was rejected
    half-way (what a compiler object did before must not matter)."""
    world.configure(())
    p = Parser() if used is None else used
    if used is not None:
        for bad in POISON:
            p.parse(bad)
    ok = p.parse(text)
    if not ok:
        return None, p.get_errors()
    return [(i.op_code, repr(i.param0) if not isinstance(i.param0, (int, float, str, type(None))) else i.param0,
             repr(i.param1) if not isinstance(i.param1, (int, float, str, type(None))) else i.param1) for i in p.get_program()], ''


def layout_worker(args):
    base = args['base']
    res = report.WorkResult('layout %r' % base[:30])
    world.start_function_trace()
    res.sites.add('layout')
    lx = lexemes(base)
    canon, err = listing(' '.join(lx))
    if canon is None:
        res.error = 'base script does not compile: %s' % err
        return res
    abbreviable = {'hue': 'H', 'saturation': 'S', 'brightness': 'B', 'kelvin': 'K'}
    rng = random.Random(args['seed'])
    seen = set()
    used_parser = Parser()

    def harness(ctx):
        mode = ctx.choose(3, 'mode')
        toks = [abbreviable[t] if (t in abbreviable and ctx.choose(2, 'abbr') == 1) else t for t in lx] if mode == 2 else list(lx)
        out = [toks[0]]
        if mode == 0:
            # one gap varied, the rest canonical: every (token, token) adjacency with every separator
            g = ctx.choose(len(toks) - 1, 'gap')
            sep = ctx.pick(SEPS, 'sep')
            for i in range(1, len(toks)):
                sp = sep if i - 1 == g else ' '
                if sp == '' and not glue_allowed(toks[i - 1], toks[i]):
                    sp = ' '
                out.append(sp + toks[i])
        else:
            # every gap gets its own separator (seeded selection of layout vectors)
            r = random.Random(ctx.choose(args['vectors'], 'vector') * 7919 + args['seed'])
            for i in range(1, len(toks)):
                sp = r.choice(SEPS)
                if sp == '' and not glue_allowed(toks[i - 1], toks[i]):
                    sp = '\n'
                out.append(sp + toks[i])
        return ''.join(out) + ctx.pick(['', '\n', ' # trailing comment'], 'tail')
    for ctx, text in symx.explore(harness, max_paths=None, timeout_ms=1000, stats=res.stats, deadline=time.time() + args['budget_s']):
        if isinstance(text, symx.Abort) or text in seen:
            continue
        seen.add(text)
        res.nontrivial += 1
        res.reached.add('layout')
        saved = symx.Ctx.cur
        symx.Ctx.cur = None
        try:
            got, err = listing(text)
            if got == canon and len(seen) % 7 == 0:
                got, err = listing(text, used_parser)
                if got != canon:
                    err = '(on a compiler object that had rejected other texts before) ' + (err or '')
        except Exception as ex:
            got, err = None, 'compiler raises %s: %s' % (type(ex).__name__, ex)
        finally:
            symx.Ctx.cur = saved
        if got != canon:
            why = 're-laid-out text is rejected: %s' % err.strip() if got is None else 'different program (%d vs %d instructions)' % (len(got), len(canon))
            glued = re.findall(r'\S*[%s]\S*' % re.escape(''.join(OPCHARS)), text)
            res.violation('layout|%s|%s' % ('rejected' if got is None else 'different', scripth._sig_of(err.strip())[:40]),
                          '%s\n  canonical: %s\n  layout:    %r' % (why, ' '.join(lx), text), inputs={'text': text, 'canonical': ' '.join(lx)}, replayed=True)
    res.sample({'base': base, 'layouts': len(seen)})
    res.functions = world.functions_seen()
    return res


def run_outputs(text):
    net = world.configure()
    p = Parser()
    if not p.parse(text):
        return None, p.get_errors()
    return p, net


def bracket_worker(args):
    """Square brackets round a routine call: same listing.  Curly braces round a single value:
    same behaviour for every value (symbolic), in every value position."""
    res = report.WorkResult('optional brackets and braces')
    world.start_function_trace()
    res.sites.update(['call-brackets', 'value-braces'])
    for plain, bracketed in (('define r with p q print p r 1 2', 'define r with p q print p [r 1 2]'),
                             ('define r on all r', 'define r on all [r]'),
                             ('define r with p return p assign x [r 3] r x', 'define r with p return p assign x [r 3] [r x]'),
                             # the call is the single command of a routine, of a conditional, of a loop
                             ('define f with p print p define r f 1 r', 'define f with p print p define r [f 1] r'),
                             ('define f with p print p if {1 > 0} f 1 else f 2', 'define f with p print p if {1 > 0} [f 1] else [f 2]'),
                             ('define f with p print p repeat 2 f 1 repeat with i from 1 to 2 f i', 'define f with p print p repeat 2 [f 1] repeat with i from 1 to 2 [f i]'),
                             ('define f on all define g with a begin f end g 1', 'define f on all define g with a begin [f] end [g 1]')):
        a, _ = listing(plain)
        b, e = listing(bracketed)
        res.nontrivial += 1
        res.reached.add('call-brackets')
        if a != b:
            res.violation('brackets|call', 'square brackets change the program: %r vs %r (%s)' % (plain, bracketed, e), inputs={'text': bracketed}, replayed=True)
    S = scripth.SENT_BASE + 1
    forms = [('hue %s print hue', 'register'), ('assign v %s print v', 'assign'), ('define f with p print p f %s', 'argument'),
             ('if %s print 1 else print 2', 'if'), ('repeat %s print 7', 'count'), ('repeat with i from %s to 3 print i', 'from'),
             ('print %s', 'print'), ('set "Z" zone %s', 'zone'), ('define m 4 hue m print %s', 'macro-neighbour'),
             # the second value of every range, matrix addressing inline and staged, the other loop clauses, return and printf values
             ('set "Z" zone 1 %s', 'zone-end'), ('set "M" row %s', 'row'), ('set "M" row 0 %s', 'row-end'), ('set "M" column %s', 'column'),
             ('set "M" column 0 %s', 'column-end'), ('set "M" row 0 1 column %s', 'column-after-row'), ('set "M" row 1 column 0 %s', 'column-end-after-row'),
             ('set "M" begin stage row 0 %s end', 'stage-row-end'), ('set "M" begin stage column %s stage row 1 column 0 %s end', 'stage-column'),
             ('repeat with i from 0 to %s print i', 'to'), ('repeat 2 with h cycle %s print h', 'cycle-start'), ('repeat %s with w from 0 to 4 print w', 'count-with'),
             ('repeat all as l with b from %s to 9 print b', 'light-from'), ('define f begin return %s end print [f]', 'return'), ('printf "{} {}" 1 %s', 'printf-value'),
             ('time %s on all', 'time'), ('duration %s set all', 'duration')]
    int_positions = ('count', 'from', 'zone', 'zone-end', 'row', 'row-end', 'column', 'column-end', 'column-after-row', 'column-end-after-row', 'stage-row-end',
                     'stage-column', 'to', 'count-with')
    for fmt, pos in forms:
        progs = []
        for val in (str(S), '{%d}' % S, '{ %d }' % S):
            world.configure()
            p = Parser()
            if not p.parse(fmt.replace('%s', val)):
                res.violation('braces|rejected|%s' % pos, 'braces round a single value rejected in %r: %s' % (fmt.replace('%s', val), p.get_errors()), inputs={'text': fmt.replace('%s', val)}, replayed=True)
                progs = None
                break
            progs.append(p.get_program())
        if not progs:
            continue

        def harness(ctx):
            v = ctx.int('v', 0, 4) if pos in int_positions else ctx.real('v', 0 if pos in ('time', 'duration') else -100, 100)
            traces = []
            for prog in progs:
                slots = [i for i in prog if isinstance(i.param0, int) and not isinstance(i.param0, bool) and i.param0 == S]
                for i in slots:
                    i.param0 = v
                try:
                    net = world.configure()
                    m = Machine()
                    m.reset()
                    scripth._instrument(m, 400)
                    m.run(prog)
                finally:
                    for i in slots:
                        i.param0 = S
                traces.append((scripth.norm_vm_trace(net.trace), net.aborted))
            return v, traces
        from vlib import refsem
        for ctx, out in symx.explore(harness, max_paths=200, timeout_ms=4000, stats=res.stats):
            if isinstance(out, symx.Abort):
                res.out_of_bound += 1
                continue
            v, traces = out
            res.nontrivial += 1
            (t0, a0) = traces[0]
            prop, what = True, None
            cons = []
            for (t, a) in traces[1:]:
                if a or a0:
                    prop, what = False, 'run aborted: %s' % (a or a0)
                    break
                mm, c = refsem.compare_traces(t, t0)
                if mm:
                    prop, what = False, mm
                    break
                cons += c
            if prop is True and cons:
                prop = z3.And(*[c[1] for c in cons])
            verdict, model = ctx.prove(prop)
            if verdict == 'unsat':
                res.reached.add('value-braces')
            elif verdict == 'sat':
                res.reached.add('value-braces')
                vv = symx.concrete(v, model)
                res.violation('braces|behaviour|%s' % pos, 'braces round a single value change the behaviour in %r for value %s: %s' % (fmt, vv, what or 'values differ'),
                              inputs={'form': fmt, 'value': vv}, replayed=True)
            else:
                res.inconclusive.append('braces ' + pos)
    res.sample({'forms': [f for f, _ in forms]})
    res.functions = world.functions_seen()
    return res


def dispatch(args):
    return {'names': names_worker, 'strings': strings_worker, 'numerals': numerals_worker, 'layout': layout_worker,
            'brackets': bracket_worker, 'string-use': string_use_worker}[args['kind']](args)


def run(tier, seed):
    t0 = time.time()
    q = tier == 'quick'
    items = [{'kind': 'names', 'collision_limit': 400 if q else 20000, 'witnesses': 3 if q else 25, 'seed': seed},
             {'kind': 'strings', 'witnesses': 3 if q else 20}, {'kind': 'numerals', 'witnesses': 2 if q else 12}, {'kind': 'brackets'}]
    items += [{'kind': 'layout', 'base': b, 'seed': seed, 'vectors': 40 if q else 1500, 'budget_s': 30 if q else 400} for b in BASE]
    contents = string_contents(6 if q else 60)
    for i in range(0, len(contents), 20):
        items.append({'kind': 'string-use', 'label': str(i // 20), 'contents': contents[i:i + 20]})
    results, skipped = report.run_pool(dispatch, items, budget_s=common.tier_budget(tier, 75, 900))
    return report.finish(
        PROP, tier, seed, 'exploration', results, skipped,
        rule='(1) z3 regex lemmas over the lexer\'s live regular expressions: no alternative tried before NAME can match at the start of an identifier; every quote-free, '
             'line-break-free content up to 8 characters between quotes is in the string language; every NUMBER token text is convertible. (2) solver-enumerated '
             'identifiers (<= 8 chars) in the only region table look-ups can affect (case variants of every word in the lexer tables) that are not documented reserved '
             'words, and solver witnesses outside it for every length and first-character class, are used as variable, macro, parameter and routine name in compiled and '
             'executed scripts. (3) re-layout: for 10 scripts every token adjacency with every separator (space, tab, line break, run, comment, nothing where an operator/'
             'brace/bracket is involved), seeded whole-layout vectors and abbreviation choices must compile to the same instruction listing. (4) optional call brackets: '
             'same listing; braces round a single value: same behaviour for all values (symbolic) in 9 value positions. (5) every lexeme of the language, every printable character and solver '
             'witnesses of the string language as the complete content of a quoted string in 10 value positions: compiles, and the value is that text',
        assumptions=['identifier classification is table look-up followed by the regex cascade (read from Lex._token_type); strings outside the table region are argued by the '
                     'lemma plus solver witnesses replayed through the real lexer and compiler',
                     'ASCII alphabet; look-behind in the string regex rewritten to an equivalent union (validated against re)'],
        bounds={'identifier_length': '<=8', 'string_content_length': '<=8', 'layout_base_scripts': len(BASE)},
        t0=t0, technique='z3 regular-expression queries over the lexer\'s own regexes (rx2z3) with witnesses replayed through the real lexer/compiler/VM; choice-variable layouts; symbolic values for brace equivalence')


def replay(v):
    print(v['message'])
    return 0
