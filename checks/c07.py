"""C07 -- transmitted colours and durations are in protocol range and numerically exact."""
import time

from vlib import report, scripth, refsem as R
from checks import common

PROP = 'C07'
N = R.Num
BIG = 10 ** 12


def commands():
    L = lambda k, n: [R.Operand(k, R.Str(n))]
    return [
        ('set-light', lambda e: [R.Action('set', L('light', 'A'))]),
        ('set-group', lambda e: [R.Action('set', L('group', 'G1'))]),
        ('set-location', lambda e: [R.Action('set', L('location', 'L1'))]),
        ('set-all', lambda e: [R.Action('set', 'all')]),
        ('set-zone', lambda e: [R.Action('set', [R.Operand('light', R.Str('Z'), zone=(N(value=1), N(value=3)))])]),
        ('set-matrix-cell', lambda e: [R.Action('set', [R.Operand('light', R.Str('M'), matrix=('inline', (N(value=1), None), (N(value=0), N(value=1))))])]),
        ('set-matrix-default', lambda e: [R.Action('set', 'default'), R.SetReg('hue', N(value=0)),
                                          R.Action('set', [R.Operand('light', R.Str('M'), matrix=('inline', (N(value=0), None), None))])]),
        ('on-light', lambda e: [R.Action('on', L('light', 'A'))]),
        ('off-group', lambda e: [R.Action('off', L('group', 'G1'))]),
        ('on-location', lambda e: [R.Action('on', L('location', 'L1'))]),
        ('off-all', lambda e: [R.Action('off', 'all')]),
        ('set-and-list', lambda e: [R.Action('set', [R.Operand('light', R.Str('A')), R.Operand('group', R.Str('G2'))])]),
    ]


def build_cases(tier):
    cases = []
    for mode in ('logical', 'raw', 'rgb'):
        for cname, mk in commands():
            for rng in (('wide',) if mode != 'rgb' else ('valid', 'wide')):
                sid = [0]

                def num(kind):
                    sid[0] += 1
                    return N(sid=sid[0], kind=kind)
                regs = ['red', 'green', 'blue'] if mode == 'rgb' else ['hue', 'saturation', 'brightness']
                stmts = [R.Units(mode)] if mode != 'logical' else []
                doms = {}
                for r in regs + ['kelvin', 'duration', 'time']:
                    n = num('any')
                    stmts.append(R.SetReg(r, n))
                    if mode == 'rgb' and r in regs and rng == 'valid':
                        doms[n.sid] = ('real', 0, 100)
                    elif mode == 'rgb' and r in regs:
                        doms[n.sid] = ('real', -BIG, BIG)
                    else:
                        doms[n.sid] = ('real', -BIG, BIG)
                stmts += mk(None)
                tag = '%s/%s/%s' % (mode, cname, rng)
                cases.append(scripth.Case(stmts, tag=tag, doms=doms))
    # integer-valued registers (raw units carry integers; pass-through must be exact)
    for cname, mk in commands()[:4]:
        sid = [0]
        stmts = [R.Units('raw')]
        doms = {}
        for r in ['hue', 'saturation', 'brightness', 'kelvin', 'duration']:
            sid[0] += 1
            stmts.append(R.SetReg(r, N(sid=sid[0], kind='raw')))
            doms[sid[0]] = ('int', 0, 65535) if r != 'duration' else ('int', 0, 0xffffffff)
        stmts += mk(None)
        cases.append(scripth.Case(stmts, tag='raw-int-passthrough/%s' % cname, doms=doms))
    # durations and delays across a unit switch (time and duration are different numbers)
    for m0 in ('logical', 'raw', 'rgb'):
        for m1 in ('logical', 'raw', 'rgb'):
            if m0 == m1:
                continue
            hi = 10 ** 6 if m0 != 'raw' else 10 ** 9
            stmts = [R.Units(m0), R.SetReg('duration', N(sid=1, kind='dur')), R.SetReg('time', N(sid=2, kind='time')), R.Units(m1),
                     R.Action('set', [R.Operand('light', R.Str('A'))]), R.Action('on', [R.Operand('group', R.Str('G1'))]),
                     R.Action('set', [R.Operand('light', R.Str('Z'), zone=(N(value=0), N(value=2)))]), R.Action('off', 'all')]
            cases.append(scripth.Case(stmts, tag='switch/%s>%s' % (m0, m1), doms={1: ('real', 0, hi), 2: ('real', 0, hi)}))
    # a raw colour read from a light and expressed in the current units converts back to the same raw colour
    from vlib import shapes
    cases += shapes.get_cases(scripth.Case)
    # the many small cases first: the budget of the quick tier cuts from the end of the list
    cases.sort(key=lambda c: 0 if c.tag.startswith(('get-', 'switch/', 'raw-int')) else 1)
    return cases


def range_check(ctx, net, interp, cons):
    """Every transmitted number is an integer in protocol range (independent of the oracle)."""
    import z3
    from vlib import symx

    def rng(v, hi, where):
        if v is None:
            return
        t = symx.term(v)
        cons.append((where + ' in-range', z3.And(t >= 0, t <= hi)))
        if isinstance(v, symx.SymNum) and not v.is_int:
            cons.append((where + ' integral', z3.IsInt(v.e)))
    for i, e in enumerate(net.trace):
        k = e[0]
        if k in ('color', 'all_color', 'zone'):
            col = e[2] if k == 'color' else (e[1] if k == 'all_color' else e[4])
            for j, c in enumerate(col):
                rng(c, 65535, 'ev%d:%s.color[%d]' % (i, k, j))
            rng(e[-1], 0xffffffff, 'ev%d:%s.duration' % (i, k))
        elif k in ('power', 'all_power'):
            rng(e[-2], 65535, 'ev%d:%s.level' % (i, k))
            rng(e[-1], 0xffffffff, 'ev%d:%s.duration' % (i, k))
        elif k == 'tile':
            for ci, cell in enumerate(e[2]):
                if cell is None:
                    return 'ev%d: tile cell %d is None' % (i, ci)
                for j, c in enumerate(cell):
                    rng(c, 65535, 'ev%d:tile.cell%d[%d]' % (i, ci, j))
            rng(e[3], 0xffffffff, 'ev%d:tile.duration' % i)
    return None


def range_check_concrete(net, interp):
    def bad(v, hi):
        return not (isinstance(v, int) or float(v) == int(v)) or v < 0 or v > hi
    for i, e in enumerate(net.trace):
        k = e[0]
        nums = []
        if k in ('color', 'all_color', 'zone'):
            col = e[2] if k == 'color' else (e[1] if k == 'all_color' else e[4])
            nums = [(c, 65535) for c in col] + [(e[-1], 0xffffffff)]
        elif k in ('power', 'all_power'):
            nums = [(e[-2], 65535), (e[-1], 0xffffffff)]
        elif k == 'tile':
            for cell in e[2]:
                if cell is None:
                    return 'ev%d: tile cell is None' % i
                nums += [(c, 65535) for c in cell]
            nums.append((e[3], 0xffffffff))
        for v, hi in nums:
            if bad(v, hi):
                return 'ev%d:%s transmits %r (not an integer in 0..%d)' % (i, k, v, hi)
    return None


def worker(args):
    if 'kernel' in args:
        return fp_worker(args)
    args = dict(args)
    args['extra_sym'] = range_check
    args['extra_concrete'] = range_check_concrete
    return common.script_worker(args)


def run(tier, seed):
    t0 = time.time()
    cases = build_cases(tier)
    items = [{'case': c, 'timeout_ms': 8000 if tier == 'quick' else 30000, 'max_paths': 4000,
              'budget_s': 28 if tier == 'quick' else 400} for c in cases]
    fp_kernels = ['param_16(x)', 'param_32(x)', 'param_16(percent_to_raw(x))', 'param_32(time_raw(x))',
                  'param_16(logical hue -> raw), 0<=h<360', 'ColorMatrix._standardize_raw([x]*4)']
    if tier == 'quick':
        fp_kernels = [k for k in fp_kernels if 'percent' not in k]       # ~2 min of bit-blasting: thorough only
    items = [{'kernel': k, 'timeout_ms': 40000 if tier == 'quick' else 600000} for k in fp_kernels] + items
    results, skipped = report.run_pool(worker, items, budget_s=common.tier_budget(tier, 80, 900))
    return report.finish(
        PROP, tier, seed, 'exploration', results, skipped,
        rule='one work item per (unit mode, command kind, value range); registers are unconstrained symbolic reals '
             '(|x| <= 1e12) or integers; every feasible path through units/param_helper/VM/wrappers is explored and the '
             'transmitted numbers are checked against the documented formulas (nearest integer, clamped) and against the protocol ranges',
        assumptions=common.SCRIPT_ASSUMPTIONS[:5] + [
            'rgb exactness is claimed for red/green/blue in [0,100]; outside that range only range-safety of what is transmitted',
            'IEEE part: six clamp-and-round kernels run on z3 Float64 proxies (round-to-nearest-even) over every double; hue with 0<=h<360 (float % not modelled)'],
        bounds={'magnitude': '|x| <= 1e12', 'modes': 3, 'command_kinds': len(commands())},
        t0=t0, technique='bounded symbolic execution of the real conversion and transmission code (proxy objects, z3 LRA/NRA with exact round-half-even)')


def replay(v):
    print(v['message'])
    return 0


# ---- IEEE-754 range lemmas: the clamp-and-round kernels on every double ------------------------
def fp_worker(args):
    import z3
    from bardolph.controller import units as units_mod
    from bardolph.controller.color_matrix import ColorMatrix
    from bardolph.lib import param_helper
    from vlib import symfp, symx, world
    name = args['kernel']
    res = report.WorkResult('ieee %s' % name)
    world.start_function_trace()
    res.sites.add('ieee-range')
    kernels = {
        'param_16(x)': (lambda x: param_helper.param_16(x), 65535),
        'param_32(x)': (lambda x: param_helper.param_32(x), 0xffffffff),
        'param_16(percent_to_raw(x))': (lambda x: param_helper.param_16(units_mod._pct_to_raw(x)), 65535),
        'param_32(time_raw(x))': (lambda x: param_helper.param_32(units_mod.time_raw(x)), 0xffffffff),
        'param_16(logical hue -> raw), 0<=h<360': (lambda x: param_helper.param_16(units_mod.logical_to_raw([x, 50.0, 50.0, 2700])[0]), 65535),
        'ColorMatrix._standardize_raw([x]*4)': (lambda x: ColorMatrix._standardize_raw([x, x, x, x])[0], 65535),
    }
    fn, hi = kernels[name]
    hue = 'hue' in name

    def harness(ctx):
        x = symfp.SymFP(z3.FP('x', symfp.F64))
        if hue:
            ctx.assume(z3.And(z3.fpGEQ(x.e, z3.FPVal(0.0, symfp.F64)), z3.fpLT(x.e, z3.FPVal(360.0, symfp.F64))))
            symfp.SymFP.__mod__ = lambda s, o: s            # h % 360.0 == h on [0, 360)
        else:
            symfp.SymFP.__mod__ = lambda s, o: (_ for _ in ()).throw(symx.Abort('float %'))
        saved = units_mod.__dict__.get('float')
        units_mod.float = symfp.fp_float
        try:
            try:
                return x, fn(x), None
            except (ValueError, OverflowError, ZeroDivisionError) as ex:
                return x, None, ex
        finally:
            units_mod.float = saved if saved is not None else symx.sym_float
    for ctx, out in symx.explore(harness, max_paths=200, timeout_ms=args['timeout_ms'], stats=res.stats):
        if isinstance(out, symx.Abort):
            res.out_of_bound += 1
            continue
        x, r, exc = out
        res.nontrivial += 1
        if exc is not None:
            verdict, model = ctx.prove(False, timeout_ms=args['timeout_ms'])
            what = 'raises %s: %s' % (type(exc).__name__, exc)
        else:
            if isinstance(r, symfp.SymFP):
                ok = z3.And(z3.Not(z3.fpIsNaN(r.e)), z3.fpGEQ(r.e, z3.FPVal(0.0, symfp.F64)), z3.fpLEQ(r.e, z3.FPVal(float(hi), symfp.F64)),
                            z3.fpEQ(r.e, z3.fpRoundToIntegral(symfp.RNE, r.e)))
            else:
                ok = z3.BoolVal(isinstance(r, int) and 0 <= r <= hi)
            verdict, model = ctx.prove(ok, timeout_ms=args['timeout_ms'])
            what = 'result not an integer in 0..%d' % hi
        if verdict == 'unsat':
            res.reached.add('ieee-range')
        elif verdict == 'unknown':
            res.inconclusive.append('ieee %s' % name)
        else:
            res.reached.add('ieee-range')
            xv = model.eval(x.e, model_completion=True)
            try:
                import struct
                f = float(eval(str(xv).replace('+oo', 'float("inf")').replace('-oo', '-float("inf")').replace('NaN', 'float("nan")'))) \
                    if not z3.is_fprm(xv) else 0.0
            except Exception:
                f = None
            # replay on the real double
            msg = None
            if f is not None:
                world.uninstall_real_mode()
                try:
                    try:
                        rr = fn(f)
                        if not (isinstance(rr, int) and 0 <= rr <= hi):
                            msg = '%s(%r) = %r' % (name, f, rr)
                    except Exception as ex:
                        msg = '%s(%r) raises %s' % (name, f, ex)
                finally:
                    world.install_real_mode()
            res.violation('ieee|%s|%s' % (name, what[:30]), 'for the double %s: %s %s\n  replay: %s' % (xv, name, what, msg), inputs={'x': str(xv)}, replayed=msg is not None)
    res.sample({'kernel': name, 'claim': 'for every IEEE double (incl. infinities, NaN, subnormals) the kernel returns an integer in 0..%d or the stated exception never occurs' % hi})
    res.functions = world.functions_seen()
    return res
