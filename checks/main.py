"""Entry point: python -m checks.main C07 [--tier quick|thorough] [--replay file]"""
import argparse
import importlib
import json
import os
import sys
import time


def main():
    ap = argparse.ArgumentParser()
    ap.add_argument('prop')
    ap.add_argument('--tier', default=os.environ.get('VERIF_TIER', 'quick'))
    ap.add_argument('--replay')
    a = ap.parse_args()
    seed = int(os.environ.get('VERIF_SEED', '0') or 0)
    sys.path.insert(0, os.environ.get('VERIF_REPO', '/repo'))
    mod = importlib.import_module('checks.' + a.prop.lower())
    if a.replay:
        with open(a.replay) as f:
            rec = json.load(f)
        sys.exit(mod.replay(rec['violation']))
    tier = 'thorough' if a.tier == 'thorough' else 'quick'
    sys.exit(mod.run(tier, seed))


if __name__ == '__main__':
    main()
