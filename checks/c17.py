"""C17 -- compiles and runs are independent of what was compiled or run before."""
import itertools
import random
import sys
import time

import z3

from bardolph.controller.script_job import ScriptJob
from bardolph.parser.parse import Parser

from vlib import report, scripth, shapes, symx, world, refsem as R
from vlib.refsem import SENT_BASE
from checks import common

PROP = 'C17'

POOL_VALID = [
    'hue 120 saturation 50 set all',
    'define m 5 hue m set "A"',
    'assign x 3 repeat x begin on all end',
    'define r with p begin brightness p set "A" end r 40',
    'set "M" begin hue 10 stage row 0 end',
    'repeat all as lt begin on lt if {hue > 1} break end',
    'time at 8:00 or 9:30 on all',
    'if {1 < 2} begin on all end else begin off all end',
    'define f with a return {a + 1} print [f 2]',
    'units raw hue 100 set all',
    'assign lt "A" on lt',
    '',
    '# only a comment',
]
POOL_INVALID = [
    'repeat 2 begin on all',                      # fails inside a loop (missing end)
    'repeat 2 begin break ) end',                 # fails inside a loop after a break
    'repeat all as lt begin on lt repeat 2 begin (',   # nested loops
    'define r begin on all',                      # fails inside a routine
    'define r with p begin hue p ) end',          # inside a routine with a parameter
    'set "M" begin stage row',                    # fails inside a matrix block
    'set "M" begin hue 5 stage row 0 ) end',      # inside a matrix block, later
    'if {1 < 2} begin on all',                    # inside an if
    'define m 5 define r on all assign x 1 )',    # after defining a macro, a routine and a variable
    'hue m',                                      # uses a name that only other texts define
    'r 1',                                        # calls a routine that only other texts define
    'on lt',
    'hue {x + 1}',
    'time at 25:00 on all',
    'break',
    'hue',
    'set "A" begin end end',
]
POOL = POOL_VALID + POOL_INVALID


def outcome(parser, text):
    try:
        ok = parser.parse(text)
    except Exception as ex:
        return ('raises', type(ex).__name__, str(ex))
    prog = parser.get_program() if ok else None
    return (bool(ok), parser.get_errors(), None if prog is None else [repr(i) for i in prog])


def compile_worker(args):
    res = report.WorkResult('compile histories %s' % args['label'])
    world.start_function_trace()
    res.sites.add('compile-history')
    world.configure()
    fresh = {}

    def fresh_outcome(t):
        if t not in fresh:
            world.configure()
            fresh[t] = outcome(Parser(), t)
        return fresh[t]
    hists = args['histories']

    def harness(ctx):
        h = hists[ctx.choose(len(hists), 'history')]
        return h
    for ctx, h in symx.explore(harness, max_paths=None, timeout_ms=1000, stats=res.stats):
        if isinstance(h, symx.Abort):
            continue
        res.nontrivial += 1
        res.reached.add('compile-history')
        saved = symx.Ctx.cur
        symx.Ctx.cur = None
        try:
            world.configure()
            p = Parser()
            for t in h[:-1]:
                outcome(p, t)
            got = outcome(p, h[-1])
            want = fresh_outcome(h[-1])
            job = ScriptJob()
            for t in h[:-1]:
                job.load_string(t)
            job.load_string(h[-1])
            jp = job.program                      # what execute() would run
            jgot = None if not jp else [repr(i) for i in jp]
            jwant = want[2] if want[0] is True else None
            jwant = jwant if jwant else None
        finally:
            symx.Ctx.cur = saved
        if got != want:
            if got[0] != want[0]:
                what = 'verdict %r instead of %r' % (got[0], want[0])
            elif got[1] != want[1]:
                what = 'messages %r instead of %r' % (got[1], want[1])
            else:
                what = 'different program'
            res.violation('compile|%s' % ('after-' + ('valid' if h[-2] in POOL_VALID else 'invalid') if len(h) > 1 else 'x') + '|' + scripth._sig_of(what)[:40],
                          'compiling %r after %r on the same compiler object gives %s' % (h[-1], h[:-1], what), inputs={'history': list(h)}, replayed=True)
        elif jgot != jwant:
            res.violation('compile|scriptjob', 'ScriptJob.load_string(%r) after %r leaves program %r, a fresh job has %r' % (h[-1], h[:-1], jgot and len(jgot), jwant and len(jwant)),
                          inputs={'history': list(h)}, replayed=True)
    res.sample({'histories': [list(h) for h in hists[:2]], 'count': len(hists)})
    res.functions = world.functions_seen()
    return res


# ---- executions ---------------------------------------------------------------------------
def plain(trace):
    """Time patterns have no equality of their own: compare what they denote."""
    out = []
    for e in trace:
        out.append(tuple(frozenset((h, m) for h in range(24) for m in range(60) if x.match(h, m)) if hasattr(x, 'match') else x for x in e))
    return out


def reset_devices(net):
    for d in net.devices:
        d.color = [0, 0, 0, 0]
        d.power = 0
        d.zones = [[0, 0, 0, 0] for _ in d.zones]
        d.cells = [[0, 0, 0, 0] for _ in d.cells]
    net.trace.clear()
    net.aborted = None


def listing_of(prog):
    out = []
    for i in prog:
        row = [i.op_code]
        for p in (i.param0, i.param1):
            if hasattr(p, 'match'):
                row.append(frozenset((h, m) for h in range(24) for m in range(60) if p.match(h, m)))
            else:
                row.append(p if symx.is_sym(p) or isinstance(p, (int, float, str, type(None))) else repr(p))
        out.append(row)
    return out


def same_listing(a, b):
    if len(a) != len(b):
        return False
    for x, y in zip(a, b):
        for p, q in zip(x, y):
            if symx.is_sym(p) or symx.is_sym(q):
                if p is not q:
                    return False
            elif p != q:
                return False
    return True


def exec_job(job, net, stop_at=None):
    """Execute the job on its own machine; optionally request a stop before VM step `stop_at`."""
    m = job._machine
    count = [0]
    table = m._fn_table
    orig = dict(table)

    def wrap(fn):
        def stepped():
            count[0] += 1
            if count[0] > 3000:
                raise scripth.StepBound('vm step bound')
            if stop_at is not None and count[0] == stop_at + 1:
                job.request_stop()
            return fn()
        return stepped
    for k in list(table):
        table[k] = wrap(orig[k])
    try:
        job.execute()
    finally:
        for k in list(table):
            table[k] = orig[k]
    return count[0]


def rerun_worker(args):
    import sys
    sys.setrecursionlimit(20000)
    case = args['case']
    other = args.get('other')
    res = report.WorkResult(case.tag)
    world.start_function_trace()
    res.sites.update(['rerun', 'program-unchanged'])
    world.configure(case.specs)
    probe = Parser()
    if not probe.parse(case.text):
        res.error = 'generated script does not compile: %s\n%s' % (probe.get_errors(), case.text)
        return res

    def find_slots(prog):
        return [(inst, attr, abs(getattr(inst, attr)) - SENT_BASE, -1 if getattr(inst, attr) < 0 else 1)
                for inst in prog for attr in ('param0', 'param1')
                if isinstance(getattr(inst, attr), int) and not isinstance(getattr(inst, attr), bool) and abs(getattr(inst, attr)) >= SENT_BASE]

    def scenario(vals, stop_at, sym, how=0):
        """how: 0 = execute() directly; 1 = the first execution is started the way the job controller does it
        (prepare(), then execute()); 2 = a stop request arrives after the first execution has ended."""
        net = world.configure(case.specs)
        job = ScriptJob.from_string(case.text)
        slots = find_slots(job.program)
        for inst, attr, sid, sign in slots:
            setattr(inst, attr, vals[sid] if sign > 0 else -vals[sid])
        before = listing_of(job.program)
        # reference: a fresh job, one complete run
        fresh = ScriptJob.from_string(case.text)
        for inst, attr, sid, sign in find_slots(fresh.program):
            setattr(inst, attr, vals[sid] if sign > 0 else -vals[sid])
        exec_job(fresh, net)
        want = plain(scripth.norm_vm_trace(list(net.trace)))
        want_abort = net.aborted
        # history: first execution (complete, or stopped before step stop_at), then the execution under test
        reset_devices(net)
        if how == 1:
            job.prepare()
        exec_job(job, net, stop_at)
        if how == 2:
            job.request_stop()              # too late for that run; it must not reach into the next one
        unchanged = same_listing(before, listing_of(job.program))
        reset_devices(net)
        exec_job(job, net)
        got = plain(scripth.norm_vm_trace(list(net.trace)))
        return want, want_abort, got, net.aborted, unchanged

    hows = []

    def harness(ctx):
        vals = scripth.make_values(ctx, case)
        k = ctx.choose(args['stops'] + 1, 'stop-at')
        stop_at = None if k == 0 else (k - 1) * args['stride']
        how = ctx.choose(3, 'how-started') if k <= 1 else 0
        hows.append(how)
        return vals, stop_at, scenario(vals, stop_at, True, how)
    for ctx, out in symx.explore(harness, max_paths=args['max_paths'], timeout_ms=4000, stats=res.stats, deadline=time.time() + args['budget_s']):
        if isinstance(out, symx.Abort):
            res.out_of_bound += 1
            continue
        vals, stop_at, (want, want_abort, got, got_abort, unchanged) = out
        how = hows[-1] if hows else 0
        res.nontrivial += 1
        what, cons = None, []
        if not unchanged:
            what = 'the first execution altered the compiled program'
        elif bool(want_abort) != bool(got_abort):
            what = 'second execution %s, fresh run %s' % (got_abort or 'completes', want_abort or 'completes')
        else:
            mm, cons = R.compare_traces(got, want)
            if mm:
                what = 'second execution differs from a fresh complete run: %s' % mm
        verdict, model = ctx.prove(False if what else (z3.And(*[c[1] for c in cons]) if cons else True))
        if verdict == 'unsat':
            res.reached.update(['rerun', 'program-unchanged'])
            continue
        if verdict == 'unknown':
            res.inconclusive.append(case.tag)
            continue
        res.reached.update(['rerun', 'program-unchanged'])
        cv = scripth.concrete_values(case, ctx.model_values(model))
        saved = symx.Ctx.cur
        symx.Ctx.cur = None
        world.uninstall_real_mode()
        try:
            w2, wa2, g2, ga2, un2 = scenario(cv, stop_at, False, how)
            msg = None
            if not un2:
                msg = 'program altered'
            elif bool(wa2) != bool(ga2) or R.compare_traces(g2, w2, slack=1e-6)[0] or any(
                    not z3.is_true(z3.simplify(c[1])) for c in R.compare_traces(g2, w2, slack=1e-6)[1]):
                msg = 'second run %r, fresh run %r' % (g2[:6], w2[:6])
        finally:
            world.install_real_mode()
            symx.Ctx.cur = saved
        what = what or 'second execution sends different values'
        res.violation('%s|%s' % (case.tag, scripth._sig_of(what)[:60]), '%s\n  first execution: %s\n  replay: %s\n  script:\n%s'
                      % (what, ('complete' if stop_at is None else 'stop requested before VM step %d' % stop_at)
                         + ('', ', started through prepare() as the job controller does', ', stop requested after it had ended')[how], msg, scripth.text_with_values(case, cv)),
                      inputs={'script': scripth.text_with_values(case, cv), 'stop_at': stop_at}, replayed=msg is not None)
    if not symx.explore.last_exhaustive:
        res.exhaustive = False
    res.sample({'tag': case.tag, 'script': case.text[:200]})
    res.functions = world.functions_seen()
    return res


def twojobs_worker(args):
    """Job 2 after job 1 (complete or stopped) in the same process == job 2 alone."""
    import sys
    sys.setrecursionlimit(20000)
    c1, c2 = args['first'], args['case']
    res = report.WorkResult('%s after %s' % (c2.tag, c1.tag))
    world.start_function_trace()
    res.sites.add('two-jobs')

    def conc(text, vals_by_sid):
        t = text
        for sid in sorted(vals_by_sid, reverse=True):
            t = t.replace(R.sent_text(sid), R._num_text(vals_by_sid[sid]))
        return t
    rng = random.Random(args['seed'])

    def scenario(stop_at, production_output):
        import io
        import sys as _sys
        from bardolph.lib import std_out_output
        out = io.StringIO()
        bind = (lambda net: std_out_output.configure()) if production_output else 'rec'
        net = world.configure(c2.specs, output=bind)
        saved = _sys.stdout
        _sys.stdout = out
        try:
            fresh = ScriptJob.from_string(args['t2'])
            exec_job(fresh, net)
            want = (plain(scripth.norm_vm_trace(list(net.trace))), out.getvalue(), net.aborted)
            out.seek(0); out.truncate()
            net2 = world.configure(c2.specs, output=bind)
            j1 = ScriptJob.from_string(args['t1'])
            exec_job(j1, net2, stop_at)
            reset_devices(net2)
            out.seek(0); out.truncate()
            j2 = ScriptJob.from_string(args['t2'])
            exec_job(j2, net2)
            got = (plain(scripth.norm_vm_trace(list(net2.trace))), out.getvalue(), net2.aborted)
        finally:
            _sys.stdout = saved
        return want, got

    def harness(ctx):
        k = ctx.choose(args['stops'] + 1, 'stop-at')
        prod = ctx.choose(2, 'output-binding') == 1
        stop_at = None if k == 0 else (k - 1) * args['stride']
        return stop_at, prod, scenario(stop_at, prod)
    for ctx, out in symx.explore(harness, max_paths=None, timeout_ms=1000, stats=res.stats):
        if isinstance(out, symx.Abort):
            continue
        stop_at, prod, (want, got) = out
        res.nontrivial += 1
        res.reached.add('two-jobs')
        if want != got:
            what = 'output differs' if want[1] != got[1] else ('commands differ' if want[0] != got[0] else 'one run aborts')
            res.violation('twojobs|%s' % what, 'job 2 behaves differently after job 1 (%s): %s\n  job 1: %s\n  job 2: %s\n  alone: %r\n  after: %r'
                          % ('complete' if stop_at is None else 'stopped before step %d' % stop_at, what, args['t1'], args['t2'],
                             (want[1], want[0][:4]), (got[1], got[0][:4])), inputs={'job1': args['t1'], 'job2': args['t2'], 'stop_at': stop_at}, replayed=True)
    res.sample({'job1': args['t1'][:150], 'job2': args['t2'][:150]})
    res.functions = world.functions_seen()
    return res


JOB_TEXTS = [
    'hue 120 saturation 50 brightness 30 kelvin 2700 print hue print saturation set all println kelvin',
    'units raw hue 30000 duration 1500 time 100 set "A" print 5 print 6',
    'assign x 5 define m 9 repeat 3 begin print x assign x {x + 1} on all end',
    'units rgb red 10 green 20 blue 30 printf "{} {red}" 1 set "B"',
    'print 1 print 2 print 3 on "A" print 4',
    'print hue print duration print time println x_unset',
    'define r with p begin print p end r 1 r 2 set default set "M" row 0',
    'time at 8:00 or 9:30 on all print 1',
]


RELOAD_FIRST = ['assign z 0 printf "{} {}" 5 {1 / z}', 'print 1 print {1 / 0} print 2', 'print "a" on all print "b"', 'assign q 3 define k 4 hue 200 units raw print q',
                'printf "{} {}" 1 2 print 3', 'repeat 2 begin print 8 end time at 8:00']
RELOAD_SECOND = ['println 7', 'print hue print 1', 'printf "{}|" 5', 'assign q 1 print q set all']


def reload_worker(args):
    """One ScriptJob object: a first text is loaded and executed (some die on a run-time error with output pending),
    then a second text is loaded into the same job and executed: it behaves as on a fresh job."""
    import io
    import sys as _sys
    from bardolph.lib import std_out_output
    res = report.WorkResult('a job object loaded with another text')
    world.start_function_trace()
    res.sites.add('reload')

    def run_pair(first, second, production):
        out = io.StringIO()
        bind = (lambda net: std_out_output.configure()) if production else 'rec'
        saved = _sys.stdout
        _sys.stdout = out
        try:
            net = world.configure(output=bind)
            world.uninstall_real_mode()
            fresh = ScriptJob.from_string(second)
            exec_job(fresh, net)
            want = (plain(scripth.norm_vm_trace(list(net.trace))), out.getvalue(), net.aborted)
            out.seek(0); out.truncate()
            net2 = world.configure(output=bind)
            world.uninstall_real_mode()
            job = ScriptJob.from_string(first)
            exec_job(job, net2)
            reset_devices(net2)
            del net2.trace[:]
            net2.aborted = None
            out.seek(0); out.truncate()
            job.load_string(second)
            exec_job(job, net2)
            got = (plain(scripth.norm_vm_trace(list(net2.trace))), out.getvalue(), net2.aborted)
        finally:
            _sys.stdout = saved
            world.install_real_mode()
        return want, got
    for first in RELOAD_FIRST:
        for second in RELOAD_SECOND:
            for production in (False, True):
                res.nontrivial += 1
                want, got = run_pair(first, second, production)
                res.reached.add('reload')
                if want != got:
                    res.violation('reload|differs', 'the text %r loaded into a job that had run %r: commands/output %r, on a fresh job %r (%s output binding)'
                                  % (second, first, (got[1], got[0][:4], got[2]), (want[1], want[0][:4], want[2]), 'production' if production else 'recording'),
                                  inputs={'first': first, 'second': second}, replayed=True)
    # an embedding that binds no output sink at all: a run that dies still only logs, execute() does not raise
    for first in RELOAD_FIRST[:3]:
        res.nontrivial += 1
        net = world.configure(output=lambda n: None)
        world.uninstall_real_mode()
        try:
            job = ScriptJob.from_string(first)
            try:
                exec_job(job, net)
                job.load_string('on all')
                exec_job(job, net)
            except Exception as ex:
                res.violation('reload|execute raises', 'ScriptJob.execute() raises %s: %s when no output sink is bound\n  script: %s' % (type(ex).__name__, ex, first),
                              inputs={'script': first}, replayed=True)
        finally:
            world.install_real_mode()
    res.sample({'first': RELOAD_FIRST, 'second': RELOAD_SECOND})
    res.functions = world.functions_seen()
    return res


# ---- the time line of a second run of the same job (the real Clock object is kept by the Machine) ------------------
def clock_rerun_worker(args):
    from checks import c10
    S = scripth.SENT_BASE
    text, sids, due = [('time %d on all time %d off all on "A"' % (S + 1, S + 2), [1, 2], [[1], [1, 2], [1, 2, 2]]),
                       ('time %d on "A" off "B" time %d on "C"' % (S + 1, S + 2), [1], None),
                       ('time %d repeat 2 begin on all end' % (S + 1), [1], [[1], [1, 1]])][args['which']]
    if due is None:
        sids, due = [1, 2], [[1], [1, 1], [1, 1, 2]]          # every command waits for the time register in force: `off "B"` waits time_1 again
    res = c10.vm_worker({'mode': 'logical', 'text': text, 'sids': sids, 'due': due, 'tag': 'run %d of the same job' % args['runs'], 'runs': args['runs'], 'tick_bound': 3, 'max_delay': 0.4,
                         'max_paths': args['max_paths'], 'budget_s': args['budget_s']})
    res.sites = {('clock-rerun' if x == 'vm-timeline' else x) for x in res.sites}
    res.reached = {('clock-rerun' if x == 'vm-timeline' else x) for x in res.reached}
    for v in res.violations:
        v['sig'] = v['sig'].replace('vm-timeline', 'clock-rerun')
        v['message'] = 'run %d of the same Machine (reset in between, as ScriptJob.execute does): %s' % (args['runs'], v['message'])
    return res


# ---- state outside the compiler objects: a fresh compiler in a process in which another compiler has worked ------------
PROCESS_TEXTS = ['hue 120 on all', 'assign Hue 5 assign On 1 print {Hue + On}', 'define Set 3 hue Set set all', 'assign x 1 print x',
                 'define f with All begin print All end f 2 on all', 'repeat all as Light begin on Light end', 'time at 8:00 on all',
                 'define r with p begin brightness p set "A" end r 40', 'define R 2 repeat R begin off all end', 'units raw hue 100 set all',
                 'define Units 7 print Units units rgb red 5 set all', 'assign Zone 1 set "Z" zone Zone']
PROCESS_FIRST = PROCESS_TEXTS + ['repeat 2 begin on all', 'set "M" begin stage row', 'define r begin on all', 'assign ON 1 assign HUE 2 assign ALL 3 assign SET 4']
_CHILD = r'''
import json, os, sys
from vlib import world
from bardolph.parser.parse import Parser
texts, first = json.loads(sys.argv[1]), json.loads(sys.argv[2])
world.configure()
def outcome(t):
    p = Parser()
    try:
        ok = p.parse(t)
    except Exception as ex:
        return ['raises', type(ex).__name__, str(ex)]
    return [bool(ok), p.get_errors(), [repr(i) for i in p.get_program()] if ok else None]
if first is not None:
    outcome(first)
out = {}
for t in texts:
    r, w = os.pipe()
    pid = os.fork()
    if pid == 0:
        os.close(r)
        with os.fdopen(w, 'w') as f:
            f.write(json.dumps(outcome(t)))
        os._exit(0)
    os.close(w)
    with os.fdopen(r) as f:
        out[t] = json.loads(f.read() or 'null')
    os.waitpid(pid, 0)
print('RESULT ' + json.dumps(out))
'''


def process_worker(args):
    import json
    import subprocess
    res = report.WorkResult('compilers of one process')
    res.sites.add('process-state')

    def run(first):
        cp = subprocess.run([sys.executable, '-c', _CHILD, json.dumps(PROCESS_TEXTS), json.dumps(first)], capture_output=True, text=True, timeout=300)
        lines = [ln for ln in cp.stdout.splitlines() if ln.startswith('RESULT ')]
        if not lines:
            raise RuntimeError('child interpreter failed: %s' % cp.stderr[-400:])
        return json.loads(lines[-1][7:])
    pristine = run(None)
    for t, o in pristine.items():
        if o is None or o[0] is not True:
            res.violation('process|not accepted', 'a valid script is not accepted by the first compiler of a new process: %r -> %r' % (t, o and o[:2]), inputs={'text': t}, replayed=True)
    for first in PROCESS_FIRST:
        got = run(first)
        for t in PROCESS_TEXTS:
            res.nontrivial += 1
            res.reached.add('process-state')
            if got.get(t) != pristine.get(t):
                g, w = got.get(t), pristine.get(t)
                what = 'verdict %r instead of %r (%s)' % (g and g[0], w and w[0], (g and g[1] or '').strip()) if (g and g[0]) != (w and w[0]) else 'a different program or message'
                res.violation('process|%s' % scripth._sig_of(what)[:40],
                              'a new compiler object gives %s for %r once another compiler object of the same process has compiled %r' % (what, t, first),
                              inputs={'first': first, 'text': t}, replayed=True)
                break
    res.sample({'texts': PROCESS_TEXTS, 'first': len(PROCESS_FIRST)})
    return res


def dispatch(args):
    return {'compile': compile_worker, 'rerun': rerun_worker, 'twojobs': twojobs_worker, 'reload': reload_worker,
            'clock-rerun': clock_rerun_worker, 'process': process_worker}[args['kind']](args)


def run(tier, seed):
    t0 = time.time()
    q = tier == 'quick'
    rng = random.Random(seed)
    pairs = list(itertools.product(POOL, repeat=2))
    triples = [tuple(rng.choice(POOL) for _ in range(3)) for _ in range(3000 if q else 60000)]
    quads = [tuple(rng.choice(POOL) for _ in range(4)) for _ in range(500 if q else 20000)]
    hists = pairs + triples + quads
    items = [{'kind': 'process'}]
    for which in range(3):
        for runs in ((2,) if q else (2, 3)):
            items.append({'kind': 'clock-rerun', 'which': which, 'runs': runs, 'max_paths': 1500 if q else 20000, 'budget_s': 20 if q else 200})
    for i in range(0, len(hists), 400):
        items.append({'kind': 'compile', 'label': str(i // 400), 'histories': hists[i:i + 400]})
    k = 0
    for p in shapes.sample(shapes.general_program(5, 2), 60 if q else 1500, seed + 11):
        k += 1
        items.append({'kind': 'rerun', 'case': scripth.Case(p, tag='rerun-%d' % k, vm_steps=3000), 'stops': 8 if q else 40,
                      'stride': 5 if q else 1, 'max_paths': 300 if q else 3000, 'budget_s': 15 if q else 120})
    for p in shapes.sample(shapes.output_program(), 30 if q else 600, seed + 12):
        k += 1
        items.append({'kind': 'rerun', 'case': scripth.Case(p, tag='rerun-out-%d' % k, vm_steps=3000), 'stops': 8 if q else 40,
                      'stride': 3 if q else 1, 'max_paths': 200 if q else 2000, 'budget_s': 15 if q else 120})
    # time patterns (literals and macros, alone and in `or` lists, in loops): execution must not alter them
    TP = [('define lunch 12:00 time at lunch wait time at lunch or 13:30 wait time at lunch on all', 'tp-macro-reused'),
          ('repeat 2 begin time at 8:00 or 9:30 or 1*:15 on all end time at 8:00 off all', 'tp-loop'),
          ('define a 7:00 define b 2*:*5 time at a or b on all time at b or a off all time at a wait', 'tp-two-macros'),
          # names looked up at run time: macros, variables and registers in named printf fields, before and after they are set
          ('define limit 75 define who "Top" printf "{limit} for {who} {x} {hue}" assign x 3 hue 20 printf "{limit} {x} {hue}" print limit on all', 'names-at-run-time'),
          ('define f with p begin printf "{p} {q} {m}" assign q p end define m 4 f 1 assign q 9 f 2 print q', 'names-in-routines'),
          # operands the VM rewrites while it works on them must be its own copies: format strings with escapes, string values
          ('define fmt "x\\n{}|\\n" printf "a\\nb {}\\n" 1 printf fmt 2 print "c\\nd" on all', 'escapes-in-formats')]
    for text, tag in TP:
        class _TextCase(scripth.Case):
            pass
        c = scripth.Case([], tag='rerun-' + tag, vm_steps=3000)
        c.text = text
        items.append({'kind': 'rerun', 'case': c, 'stops': 8 if q else 30, 'stride': 2 if q else 1, 'max_paths': 200, 'budget_s': 15 if q else 60})
    # jobs with unresolved names would not compile: keep only texts that compile
    texts = [t for t in JOB_TEXTS if 'x_unset' not in t]
    dummy = scripth.Case([], tag='job')
    for a, b in itertools.permutations(range(len(texts)), 2):
        c1 = scripth.Case([], tag='job%d' % a)
        c2 = scripth.Case([], tag='job%d' % b)
        items.append({'kind': 'twojobs', 'first': c1, 'case': c2, 't1': texts[a], 't2': texts[b], 'stops': 12 if q else 45,
                      'stride': 3 if q else 1, 'seed': seed})
    items.append({'kind': 'reload'})
    results, skipped = report.run_pool(dispatch, items, budget_s=common.tier_budget(tier, 75, 900))
    return report.finish(
        PROP, tier, seed, 'exploration', results, skipped,
        rule='(1) compile histories as choice variables: every ordered pair and seeded triples/quadruples from a pool of %d valid and %d invalid texts (rejected inside a loop, a '
             'routine, a matrix block, an if; texts relying on names only other texts define) on one Parser and one ScriptJob must give the verdict, messages and listing of a '
             'fresh compiler; (2) a ScriptJob with symbolic literals executed after a first execution that was complete or stopped before VM step k (choice variable) must '
             'produce the trace of a fresh complete run (z3 over the values) and leave the compiled program (incl. time-pattern denotations) unchanged; (3) every ordered pair '
             'of %d jobs in one process, job 1 complete or stopped at step k, with recording and production output binding: job 2 behaves as when run alone'
             % (len(POOL_VALID), len(POOL_INVALID), len(JOB_TEXTS) - 1),
        assumptions=common.SCRIPT_ASSUMPTIONS[:3] + ['device state is reset between executions (a script that reads the lights would legitimately differ); all bardolph objects are kept',
                                                      'the clock is the recording stub; clock-thread hand-over between runs is covered by C09'],
        bounds={'compile_histories': len(hists), 'history_length': '<=4', 'stop_positions': 'every %s VM step up to %d' % ('5th' if q else '', 40 if q else 45)},
        t0=t0, technique='history exploration by choice variables over the real compiler and ScriptJob/Machine objects; second-run traces compared with fresh runs by z3 on symbolic literals')


def replay(v):
    print(v['message'])
    return 0
