"""C03 -- parameters are by-value locals hiding globals; return works from any depth."""
import time

from vlib import report, scripth, shapes, refsem as R
from checks import common

N = R.Num

PROP = 'C03'


def build_cases(tier, seed):
    cases, seen = [], set()

    def add(stmts, tag):
        text = R.render(stmts)
        if text not in seen:
            seen.add(text)
            cases.append(scripth.Case(stmts, tag=tag, vm_steps=1500, ref_steps=600))
    k = 0
    plan = [(1, False, False, 150), (2, True, False, 250), (3, True, True, 200)] if tier == 'quick' else \
           [(1, False, False, 1500), (2, True, False, 3000), (3, True, True, 3000), (5, True, True, 1500)]
    for size, two, rec, cnt in plan:
        for p in shapes.sample(shapes.routine_program(size, two, rec), cnt, seed * 31 + size):
            k += 1
            add(p, 'rt-s%d-%d' % (size, k))
    n = 0
    for p in shapes.enumerate_all(shapes.return_from_loops_program()):
        n += 1
        text = R.render(p)
        if text not in seen:
            seen.add(text)
            cases.append(scripth.Case(p, specs=shapes.POPULATIONS['three'], tag='ret-loops-%d' % n, vm_steps=2500, ref_steps=900))
    # a parameter that names a device hides a string constant of the same name where devices are addressed
    for kind, (glob, arg) in (('light', ('A', 'B')), ('group', ('G1', 'G2')), ('location', ('L1', 'L2')), ('light', ('Z', 'Q'))):
        tgt = lambda: [R.Operand(kind, R.Var('target'))]
        body = [R.SetReg('hue', R.Var('n')), R.Action('set', tgt()), R.Repeat('count', [R.Action('on', tgt())], n=N(value=2)),
                R.If(R.Bin('>', R.Var('n'), N(sid=2, kind='hue')), [R.Action('off', tgt())], [R.Print(R.Var('target'), ln=True)])]
        stmts = [R.Define('target', R.Str(glob)), R.RoutineDef('f', ['target', 'n'], body), R.Call('f', [R.Str(arg), N(sid=1, kind='hue')]),
                 R.Action('set', tgt())]
        cases.append(scripth.Case(stmts, tag='device-param-%s-%s' % (kind, arg), vm_steps=1500, ref_steps=600))
    return cases


# ---- a parameter hides a global whatever value it received, including "nothing" ----------------------------
NOTHING_SCRIPTS = [
    # (script, indices of printed items that must be equal, index that must be 7)
    'define g begin return end define f with x begin println x end assign x 7 println [g] f [g] println x',
    'define g begin on all end define f with x begin println x assign x 3 println x end assign x 7 println [g] f [g] println x',
    'define g begin return end define h with x begin println x end define f with x begin h x end assign x 7 println [g] f [g] println x',
]


SCOPE_FORMS = [
    # a parameter stays visible for the whole body, also after a `set ... begin ... end` block
    ('define f with x begin set "M" begin stage row 0 end println x set "M" row x end f 1', [1, '\n']),
    ('define f with x y begin set "M" begin hue y stage row x end print {x + y} end f 1 2 print 9', [3, 9]),
    # a parameter hides a global of the same name, whether that global is a variable or a constant
    ('define x 5 define f with x begin println x end f 7 println x', [7, '\n', 5, '\n']),
    ('define x 5 define f with x begin return {x + 1} end print [f 10]', [11]),
    ('define lamp "A" define f with lamp begin print lamp end f "B" print lamp', ['B', 'A']),
    ('assign x 5 define f with x begin assign x {x * 2} return x end print [f 4] print x', [8, 5]),
    # no global variable exists at all: locals and parameters are still per call
    ('define rec with n begin assign loc {n * 2} if {n > 0} rec {n - 1} print loc end rec 2', [0, 2, 4]),
    ('define helper begin assign i 99 assign p 98 end define f with p begin repeat with i from 1 to 2 begin helper print i print p end end f 5', [1, 5, 2, 5]),
    ('define inner with a begin assign t {a + 1} return t end define outer with a begin assign t 10 assign r [inner a] return {t + r} end print [outer 1]', [12]),
    # a constant defined after the routine, or anywhere, does not replace a parameter or local of that name at run time
    ('define f with lamp begin assign k 8 print k print lamp end define k 100 f "B"', [8, 'B']),
    # a routine called for a later value of a printf prints its own parameter, and the caller's values stay the caller's
    ('define g with p begin print p return 42 end assign v 20 printf "{} {} {}" v 7 [g 21]', [21, '20 7 42']),
    ('define g with p begin println p return {p * 2} end define f with a begin printf "{}-{}" a [g {a + 1}] end f 5', [6, '\n', '5-12']),
]


def nothing_worker(args):
    """The result of a routine that returns nothing, passed as an argument whose parameter has the name of a global:
    inside the routine the parameter shows what `println [g]` shows at top level, never the global's value."""
    from bardolph.parser.parse import Parser
    from bardolph.vm.machine import Machine
    from vlib import world
    res = report.WorkResult('a parameter that received nothing still hides the global')
    world.start_function_trace()
    res.sites.add('nothing-argument')
    for text in NOTHING_SCRIPTS:
        res.nontrivial += 1
        net = world.configure()
        world.uninstall_real_mode()
        p = Parser()
        if not p.parse(text):
            res.violation('nothing|rejected', 'rejected: %s\n  script: %s' % (p.get_errors().strip(), text), inputs={'script': text}, replayed=True)
            continue
        m = Machine()
        m.reset()
        m.run(p.get_program())
        outs = [e[1] for e in net.trace if e[0] == 'out']
        res.reached.add('nothing-argument')
        bad = net.aborted or len(outs) < 3 or outs[1] != outs[0] or outs[-1] != 7 or outs[1] == 7
        if bad:
            res.violation('nothing|parameter shows the global', 'printed %r%s: the parameter x should show what `println [g]` shows (first item), and the global stays 7 (last item)\n  script: %s'
                          % (outs, ' (%s)' % net.aborted if net.aborted else '', text), inputs={'script': text}, replayed=True)
    world.install_real_mode()
    common.fixed_scripts(res, 'scope-forms', SCOPE_FORMS)
    res.sample({'scripts': NOTHING_SCRIPTS})
    res.functions = world.functions_seen()
    return res


def run(tier, seed):
    t0 = time.time()
    cases = build_cases(tier, seed)
    items = [{'case': c, 'timeout_ms': 4000, 'max_paths': 400 if tier == 'quick' else 2000,
              'budget_s': 15 if tier == 'quick' else 90} for c in cases]
    items.append({'nothing': True})
    results, skipped = report.run_pool(lambda a: nothing_worker(a) if 'nothing' in a else common.script_worker(a), items, budget_s=common.tier_budget(tier, 70, 900))
    return report.finish(
        PROP, tier, seed, 'exploration', results, skipped,
        rule='work item = one routine-centred program shape (parameter sets drawn from a pool colliding with global names, '
             'assignments to parameters/globals/locals at top level, inside if and inside repeat, nested/recursive/argument calls, '
             'returns at depth 0..2); all feasible paths on the real VM with symbolic arguments and globals, printed values compared '
             'with the reference semantics by z3',
        assumptions=common.SCRIPT_ASSUMPTIONS,
        bounds={'shapes': len(cases), 'return_from_loop_nests': 'exhaustive: 4 outer x 3 inner loop kinds x 5 call-site styles, return position symbolic', 'selection': 'seeded (VERIF_SEED) from the grammar in vlib/shapes.py:routine_program',
                'recursion_depth': '0..3 (symbolic)', 'repeat_counts': '1..2 (concrete) in routine bodies'},
        t0=t0, technique='bounded symbolic execution of the real compiler/VM calling sequence (proxy objects, z3) against a reference interpreter')


def replay(v):
    print(v['message'])
    return 0
