"""C03 -- parameters are by-value locals hiding globals; return works from any depth."""
import time

from vlib import report, scripth, shapes, refsem as R
from checks import common

PROP = 'C03'


def build_cases(tier, seed):
    cases, seen = [], set()

    def add(stmts, tag):
        text = R.render(stmts)
        if text not in seen:
            seen.add(text)
            cases.append(scripth.Case(stmts, tag=tag, vm_steps=1500, ref_steps=600))
    k = 0
    plan = [(1, False, False, 150), (2, True, False, 250), (3, True, True, 200)] if tier == 'quick' else \
           [(1, False, False, 1500), (2, True, False, 3000), (3, True, True, 3000), (5, True, True, 1500)]
    for size, two, rec, cnt in plan:
        for p in shapes.sample(shapes.routine_program(size, two, rec), cnt, seed * 31 + size):
            k += 1
            add(p, 'rt-s%d-%d' % (size, k))
    n = 0
    for p in shapes.enumerate_all(shapes.return_from_loops_program()):
        n += 1
        text = R.render(p)
        if text not in seen:
            seen.add(text)
            cases.append(scripth.Case(p, specs=shapes.POPULATIONS['three'], tag='ret-loops-%d' % n, vm_steps=2500, ref_steps=900))
    return cases


def run(tier, seed):
    t0 = time.time()
    cases = build_cases(tier, seed)
    items = [{'case': c, 'timeout_ms': 4000, 'max_paths': 400 if tier == 'quick' else 2000,
              'budget_s': 15 if tier == 'quick' else 90} for c in cases]
    results, skipped = report.run_pool(common.script_worker, items, budget_s=common.tier_budget(tier, 70, 900))
    return report.finish(
        PROP, tier, seed, 'exploration', results, skipped,
        rule='work item = one routine-centred program shape (parameter sets drawn from a pool colliding with global names, '
             'assignments to parameters/globals/locals at top level, inside if and inside repeat, nested/recursive/argument calls, '
             'returns at depth 0..2); all feasible paths on the real VM with symbolic arguments and globals, printed values compared '
             'with the reference semantics by z3',
        assumptions=common.SCRIPT_ASSUMPTIONS,
        bounds={'shapes': len(cases), 'return_from_loop_nests': 'exhaustive: 4 outer x 3 inner loop kinds x 5 call-site styles, return position symbolic', 'selection': 'seeded (VERIF_SEED) from the grammar in vlib/shapes.py:routine_program',
                'recursion_depth': '0..3 (symbolic)', 'repeat_counts': '1..2 (concrete) in routine bodies'},
        t0=t0, technique='bounded symbolic execution of the real compiler/VM calling sequence (proxy objects, z3) against a reference interpreter')


def replay(v):
    print(v['message'])
    return 0
