"""C15 -- zone and row/column addressing hits exactly the addressed cells, once each."""
import itertools
import time

from vlib import report, scripth, shapes, refsem as R
from checks import common

PROP = 'C15'


def build_cases(tier, seed):
    cases, seen = [], set()
    sizes = [(3, 3, 150), (2, 4, 100), (1, 1, 30)] if tier == 'quick' else [(3, 3, 1500), (2, 4, 800), (1, 1, 100), (6, 5, 500), (4, 2, 400)]
    k = 0
    for h, w, cnt in sizes:
        specs = shapes.matrix_specs(h, w)
        for doms, stmts in shapes.sample(shapes.addressing_program(h, w), cnt, seed * 101 + h * 10 + w):
            text = '%dx%d' % (h, w) + R.render(stmts)
            if text in seen:
                continue
            seen.add(text)
            k += 1
            cases.append(scripth.Case(stmts, specs=specs, tag='addr-%dx%d-%d' % (h, w, k), doms=doms, vm_steps=2500))
            if k % 4 == 0:
                # the same program as the second run of its Machine: the first run saved a default colour, staged cells and left raw units
                cases.append(scripth.Case(stmts, specs=specs, tag='addr-%dx%d-%d-rerun' % (h, w, k), doms=doms, vm_steps=2500,
                                          before='hue 10 saturation 20 brightness 30 kelvin 2000 set default set "M" begin stage row 0 end units raw hue 500 set "Z" zone 1 3'))
    return cases


def _pairs(net, interp):
    """(description, cell component, plain-set component) for cells coloured by a one-line set that is
    directly followed by a plain `set` of the same registers."""
    out = []
    if interp is None:
        return out
    vt, rt = [e for e in net.trace if e[0] != 'get_color' or True], interp.trace
    for i in range(len(rt) - 1):
        if i in interp.inline_tiles and rt[i + 1][0] == 'color' and i + 1 < len(vt) and vt[i][0] == 'tile' and vt[i + 1][0] == 'color':
            plain = vt[i + 1][2]
            for ci, (spec_cell, got_cell) in enumerate(zip(rt[i][2], vt[i][2])):
                if isinstance(spec_cell, R.Painted) and got_cell is not None:
                    for j in range(4):
                        out.append(('ev%d:tile cell %d[%d] equals the plain set' % (i, ci, j), got_cell[j], plain[j]))
    return out


def same_as_plain_set(ctx, net, interp, cons):
    """Cells coloured by the one-line form carry exactly the colour a plain `set` of the same registers transmits."""
    from vlib import symx
    for desc, a, b in _pairs(net, interp):
        cons.append((desc, symx.eq(a, b), None))
    return None


def same_as_plain_set_concrete(net, interp):
    for desc, a, b in _pairs(net, interp):
        if a != b:
            return '%s: cell %r, plain set %r' % (desc, a, b)
    return None


def worker(args):
    args = dict(args)
    args['extra_sym'] = same_as_plain_set
    args['extra_concrete'] = same_as_plain_set_concrete
    return common.script_worker(args)


def run(tier, seed):
    t0 = time.time()
    cases = build_cases(tier, seed)
    # interleave the matrix sizes: when the machine is busy the quick tier's budget cuts from the end of the list
    by_size = {}
    for c in cases:
        by_size.setdefault(c.tag.split('-')[1] if '-' in c.tag else '', []).append(c)
    cases = [c for group in itertools.zip_longest(*by_size.values()) for c in group if c is not None]
    items = [{'case': c, 'timeout_ms': 6000, 'max_paths': 300 if tier == 'quick' else 3000,
              'budget_s': 8 if tier == 'quick' else 120} for c in cases]
    results, skipped = report.run_pool(worker, items, budget_s=common.tier_budget(tier, 70, 900))
    return report.finish(
        PROP, tier, seed, 'exploration', results, skipped,
        rule='work item = one addressing program (zone range, inline row/column form in either order, begin/stage/end block with up to 3 '
             'stages or a staging loop, optional saved default, in logical/raw/rgb units) on a matrix of a given size; bounds are symbolic '
             'integers within the device (literals, variables, expressions, loop indices); the zone message and the single tile message per '
             'set are compared cell by cell with the reference semantics on every feasible path',
        assumptions=common.SCRIPT_ASSUMPTIONS,
        bounds={'matrix_sizes': sorted({c.tag.split('-')[1] for c in cases}), 'zones': 8, 'stages': '<=3', 'shapes': len(cases)},
        t0=t0, technique='bounded symbolic execution of the real matrix/zone parser, VM and ColorMatrix code (proxy objects, z3) against a reference interpreter')


def replay(v):
    print(v['message'])
    return 0
