"""C01 -- running a script issues exactly the commands, waits and output its source says."""
import time

from vlib import report, scripth, shapes, refsem as R
from checks import common

PROP = 'C01'


def build_cases(tier, seed):
    cases = []
    seen = set()

    def add(stmts, tag):
        text = R.render(stmts)
        if text in seen:
            return
        seen.add(text)
        cases.append(scripth.Case(stmts, tag=tag))
    n = 0
    for size in (1, 2):
        for p in shapes.enumerate_all(shapes.general_program(size, depth=1, vocab='core')):
            n += 1
            add(p, 'core-s%d-%d' % (size, n))
    n_core = len(cases)
    for p in shapes.enumerate_all(shapes.general_program(1, depth=1, vocab='full')):
        n += 1
        add(p, 'full-s1-%d' % n)
    n_full1 = len(cases) - n_core
    big = 200 if tier == 'quick' else 4000
    k = 0
    for size, share in ((4, 0.4), (6, 0.4), (9, 0.2)):
        for p in shapes.sample(shapes.general_program(size, depth=2 if size < 9 else 3), int(big * share), seed * 7919 + size):
            k += 1
            add(p, 'seeded-s%d-%d' % (size, k))
    # loops in loops (and in routines) with breaks at symbolic positions, on varying populations
    for pop, p in shapes.sample(shapes.loop_program(None, nest=True, in_routine=True), 120 if tier == 'quick' else 2500, seed * 13 + 3):
        k += 1
        text = R.render(p)
        if text not in seen:
            seen.add(text)
            cases.append(scripth.Case(p, specs=shapes.POPULATIONS[pop], tag='loops-%d[%s]' % (k, pop), vm_steps=2500, ref_steps=900))
    # return from every nest of counted / light-iteration loops, with callers that have loops or operands pending
    for p in shapes.enumerate_all(shapes.return_from_loops_program()):
        k += 1
        text = R.render(p)
        if text not in seen:
            seen.add(text)
            cases.append(scripth.Case(p, specs=shapes.POPULATIONS['three'], tag='ret-loops-%d' % k, vm_steps=2500, ref_steps=900))
    # every unit switch with a delay and a transition duration in force (exhaustive small family)
    for doms, p in shapes.enumerate_all(shapes.unit_switch_program()):
        k += 1
        text = R.render(p)
        if text not in seen:
            seen.add(text)
            cases.append(scripth.Case(p, tag='units-%d' % k, doms=doms))
    # `get` in every unit mode (symbolic raw states; concrete ones for rgb)
    cases += shapes.get_cases(scripth.Case)
    # two-operator expressions and operator mixes in conditions, used in commands
    cases += shapes.expression_cases(scripth.Case)
    if tier == 'thorough':
        for p in shapes.sample(shapes.general_program(3, depth=2, vocab='core'), 5000, seed + 17):
            k += 1
            add(p, 'core-s3-%d' % k)
    return cases, {'core_exhaustive_S<=2': n_core, 'full_vocab_S=1': n_full1,
                   'seeded_or_sampled': len(cases) - n_core - n_full1, 'of_which_nested_loop_shapes': 120 if tier == 'quick' else 2500}


# variables that spell a VM register which is not a language keyword: a printf field shows the variable, whatever its value
NAMED_FORMS = [
    ('assign power 0 on all printf "{power}"', ['0']),
    ('assign power 3 off all printf "{power}"', ['3']),
    ('assign result 0 define f begin return 5 end assign q [f] printf "{result} {q}"', ['0 5']),
    ('assign name "" on "A" printf "[{name}]"', ['[]']),
    ('assign Hue 0 hue 120 printf "{Hue} {hue}"', ['0 120']),
    ('define f with power pc begin printf "{power} {pc}" end on all f 0 {1 > 2}', ['0 False']),
    ('assign first_zone 0 set "Z" zone 2 4 printf "{first_zone}"', ['0']),
]


def named_worker(args):
    res = report.WorkResult('printf fields named like internal registers')
    common.fixed_scripts(res, 'named-forms', NAMED_FORMS)
    res.sample({'scripts': [t for t, _ in NAMED_FORMS]})
    return res


def run(tier, seed):
    t0 = time.time()
    cases, counts = build_cases(tier, seed)
    budget = common.tier_budget(tier, 70, 900)
    items = [{'case': c, 'timeout_ms': 4000, 'max_paths': 600 if tier == 'quick' else 3000,
              'budget_s': 8 if tier == 'quick' else 120} for c in cases]
    items.insert(0, {'named': True})
    results, skipped = report.run_pool(lambda a: named_worker(a) if 'named' in a else common.script_worker(a), items, budget_s=budget)
    return report.finish(
        PROP, tier, seed, 'exploration', results, skipped,
        rule='each work item is one program shape (AST with symbolic numeric literals); every feasible '
             'path of the real compiler output on the real VM is explored by z3-decided branching and '
             'its device/clock/output trace is compared with the reference semantics by one solver query; '
             'non-trivial = a path with at least one solver-decided branch or numeric trace field',
        assumptions=common.SCRIPT_ASSUMPTIONS,
        bounds={'shapes': counts, 'repeat_count': '0..3', 'vm_steps_per_path': 600,
                'paths_per_shape': 600 if tier == 'quick' else 3000,
                'population': 'A,B,C plain; Z multizone(8); M matrix 3x3; groups G1..G3, locations L1,L2',
                'literals': scripth.DOMAINS},
        t0=t0, technique='bounded symbolic execution of the real parser/loader/VM (proxy objects, z3) against a reference interpreter',
        extra_cov={'shape_counts': counts})


def replay(v):
    print(v['message'])
    return 0
