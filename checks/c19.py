"""C19 -- print, println and printf write exactly the documented text to standard output."""
import io
import sys
import time

from bardolph.lib import std_out_output

from vlib import report, scripth, shapes, symx, world, refsem as R
from checks import common

PROP = 'C19'


class Tap(io.TextIOBase):
    """Stands in for sys.stdout: every write becomes an event in the common trace."""
    def __init__(self, net):
        self.net = net

    def write(self, s):
        if s:
            self.net.ev('stdout', s)
        return len(s)

    def flush(self):
        pass


def segments_vm(trace):
    out, cur = [], ''
    for e in trace:
        if e[0] == 'stdout':
            cur += e[1]
        else:
            out.append(cur)
            out.append(e[:2])
            cur = ''
    out.append(cur)
    return out


def segments_ref(trace):
    out, cur, pending = [], '', False
    for e in trace:
        if e[0] == 'out':
            cur += (' ' if pending else '') + str(e[1])
            pending = True
        elif e[0] == 'newline':
            cur += '\n'
            pending = False
        else:
            out.append(cur)
            out.append(e[:2])
            cur = ''
    out.append(cur)
    return out


def same(a, b):
    if len(a) != len(b):
        return 'output/command interleaving differs: %r vs expected %r' % (a, b)
    for i, (x, y) in enumerate(zip(a, b)):
        if i == len(a) - 1 and isinstance(x, str):
            # a line break at the very end of the script's output is accepted either way
            if x.rstrip('\n') != y.rstrip('\n') or abs(len(x) - len(x.rstrip('\n')) - (len(y) - len(y.rstrip('\n')))) > 1:
                return 'stdout %r expected %r' % (x, y)
        elif x != y:
            return 'stdout/command %r expected %r' % (x, y)
    return None


def run_once(case, prog, slots, vals):
    def bind_output(net):
        std_out_output.configure()          # the production binding, as light_module.configure() does
    net = None
    saved = sys.stdout

    def hooked_configure(specs):
        n = world.configure(specs, output=bind_output)
        return n
    # run_vm calls world.configure(specs); route it through the production output binding
    orig = world.configure
    scripth.world.configure = lambda specs=world.DEFAULT_SPECS, **kw: orig(specs, output=bind_output, **kw)
    try:
        holder = {}

        def mon(m):
            if 'tap' not in holder:
                holder['tap'] = True
        # install the tap right before the machine runs: configure() happens inside run_vm
        class _Stdout:
            def write(self_, s):
                n = holder.get('net')
                if n is not None and s:
                    n.ev('stdout', s)
                return len(s)

            def flush(self_):
                pass
        sys.stdout = _Stdout()

        def monitor(m):
            pass
        orig_run = scripth.Machine.run

        def post(net_, m):
            pass
        # we need the net before the run starts: wrap Machine construction
        real_configure = scripth.world.configure

        def cfg(specs=world.DEFAULT_SPECS, **kw):
            n = real_configure(specs, **kw)
            holder['net'] = n
            return n
        scripth.world.configure = cfg
        net = scripth.run_vm(case, prog, slots, vals)
    finally:
        sys.stdout = saved
        scripth.world.configure = orig
    return net


def worker(args):
    import sys as _s
    _s.setrecursionlimit(20000)
    case = args['case']
    res = report.WorkResult(case.tag)
    world.start_function_trace()
    res.sites.add('stdout')
    try:
        prog, slots = scripth.compile_case(case)
    except scripth.CompileError as ce:
        res.error = 'generated script does not compile: %s\n%s' % (ce, case.text)
        return res

    def harness(ctx):
        vals = scripth.make_values(ctx, case)
        net = run_once(case, prog, slots, vals)
        interp = scripth.run_ref(case, vals, net)
        return vals, net, interp
    for ctx, out in symx.explore(harness, max_paths=args['max_paths'], timeout_ms=4000, stats=res.stats,
                                 deadline=time.time() + args['budget_s']):
        if isinstance(out, symx.Abort):
            res.out_of_bound += 1
            continue
        vals, net, interp = out
        res.nontrivial += 1
        mm = 'run aborted: %s' % net.aborted if net.aborted else same(segments_vm(net.trace), segments_ref(interp.trace))
        if mm is None:
            res.reached.add('stdout')
            continue
        verdict, model = ctx.prove(False)
        if verdict == 'unsat':
            continue
        if verdict == 'unknown':
            res.inconclusive.append(case.tag)
            continue
        res.reached.add('stdout')
        cv = scripth.concrete_values(case, ctx.model_values(model))
        saved = symx.Ctx.cur
        symx.Ctx.cur = None
        world.uninstall_real_mode()
        try:
            n2 = run_once(case, prog, slots, cv)
            i2 = scripth.run_ref(case, cv, n2)
            msg = 'run aborted: %s' % n2.aborted if n2.aborted else same(segments_vm(n2.trace), segments_ref(i2.trace))
        finally:
            world.install_real_mode()
            symx.Ctx.cur = saved
        res.violation('%s|%s' % (case.tag, scripth._sig_of(mm)[:40]), '%s\n  replay: %s\n  script:\n%s' % (mm, msg, scripth.text_with_values(case, cv)),
                      inputs={'script': scripth.text_with_values(case, cv)}, replayed=msg is not None)
    if not symx.explore.last_exhaustive:
        res.exhaustive = False
    res.sample({'tag': case.tag, 'script': case.text[:300]})
    res.functions = world.functions_seen()
    return res


def build_cases(tier, seed):
    cases, seen = [], set()
    for k, p in enumerate(shapes.sample(shapes.output_program(), 500 if tier == 'quick' else 60000, seed * 3 + 1)):
        t = R.render(p)
        if t not in seen:
            seen.add(t)
            cases.append(scripth.Case(p, tag='out-%d' % k, vm_steps=1500))
    return cases


# ---- a script's output is exactly its own text, also right after a script that was stopped mid-line ------
FIRST = ['print "a" print "b" on all print "c" on all print "d"',
         'printf "{} {}" 1 2 print 3 on all printf "{}" 4',
         'print 1 on "A" println 2 print 3 on "A" print 4',
         'define f with x begin print "in" return x end printf "{} {}" 1 [f 2] print [f 3]']
SECOND = ['println "c"', 'print 7 print 8', 'printf "{}|" 5 println 6']


def sequence_worker(args):
    """Production output binding, one process: script 1 runs to its end or is stopped before VM step k (choice variable),
    then script 2 runs: what script 2 writes to stdout is what it writes when it runs alone."""
    from bardolph.controller.script_job import ScriptJob
    from checks.c17 import exec_job
    res = report.WorkResult('output after a stopped script')
    world.start_function_trace()
    res.sites.add('after-stop')

    def scenario(i1, i2, stop_at):
        out = io.StringIO()
        saved = sys.stdout
        sys.stdout = out
        try:
            bind = lambda net: std_out_output.configure()
            net = world.configure(output=bind)
            exec_job(ScriptJob.from_string(SECOND[i2]), net)
            alone = out.getvalue()
            out.seek(0); out.truncate()
            net = world.configure(output=bind)
            exec_job(ScriptJob.from_string(FIRST[i1]), net, stop_at)
            first_out = out.getvalue()
            out.seek(0); out.truncate()
            exec_job(ScriptJob.from_string(SECOND[i2]), net)
            return alone, out.getvalue(), first_out
        finally:
            sys.stdout = saved

    def harness(ctx):
        i1 = ctx.choose(len(FIRST), 'first')
        i2 = ctx.choose(len(SECOND), 'second')
        k = ctx.choose(args['stops'] + 1, 'stop-at')
        stop_at = None if k == 0 else k - 1
        return i1, i2, stop_at, scenario(i1, i2, stop_at)
    for ctx, out in symx.explore(harness, max_paths=None, timeout_ms=1000, stats=res.stats):
        if isinstance(out, symx.Abort):
            continue
        i1, i2, stop_at, (alone, after, first_out) = out
        res.nontrivial += 1
        res.reached.add('after-stop')
        if alone != after:
            res.violation('after-stop|output differs', 'the script %r writes %r when run alone, but %r after the script %r %s (which wrote %r)'
                          % (SECOND[i2], alone, after, FIRST[i1], 'ran to its end' if stop_at is None else 'was stopped before VM step %d' % stop_at, first_out),
                          inputs={'first': FIRST[i1], 'second': SECOND[i2], 'stop_at': stop_at}, replayed=True)
    res.sample({'first': FIRST, 'second': SECOND, 'stop_positions': args['stops']})
    res.functions = world.functions_seen()
    return res


# ---- negative literals are values wherever a value is written -----------------------------------------
VALUE_FORMS = [
    ('print -5', '-5'),
    ('println -2.5', '-2.5\n'),
    ('print 1 print -2 println -3', '1 -2 -3\n'),
    ('printf "{} {}" 3 -5', '3 -5'),
    ('printf "{:>4}|{}" -7 -0.5', '  -7|-0.5'),
    ('define m 4 print -m', '-4'),
    ('define f begin return -1 end print [f]', '-1'),
    ('define g with a begin print a end g -6 [g -8]', '-6 -8'),
    ('assign x -1 print x', '-1'),
    ('printf "{} {}" not 0 not 1', 'True False'),
    # a printf that ends its line: what follows starts the next line, with no separator owed
    ('printf "a\\n" print 1', 'a\n1'),
    ('printf "x {}\\n" 2 print 3 println 4 print 5', 'x 2\n3 4\n5'),
    ('print 0 printf "{}\\n" 1 printf "{}\\n" 2', '0 1\n2\n'),
    # a line break inside a printf text does not end the line that follows it
    ('hue 120 saturation 50 printf "x\\nhue {hue:.0f}" print saturation', 'x\nhue 120 50'),
    ('printf "\\na" print 1 println 2', '\na 1 2\n'),
    # a script that dies while collecting the values of a printf has written what it printed before, and nothing else
    ('print "a" printf "{} {}" 1 {1 / 0} print "b"', 'a'),
    ('define f with x begin return {x / 0} end print 1 printf "{} {} {}" 2 3 [f 4]', '1'),
    ('assign x 0 print not x println not 5', 'True False\n'),
    ('define f with a begin print a end f not 0', 'True'),
    ('repeat 2 with h cycle -90 begin print h end', '-90 90.0'),
    # whole numbers written with leading zeros are whole numbers
    ('print 007 print 00 println -012', '7 0 -12\n'),
    ('printf "{:d}|{:>3d}" 010 007', '10|  7'),
    ('assign n 0042 print n print {n + 1}', '42 43'),
    # a named field may name a defined constant; a parameter of the same name hides it
    ('define c 5 printf "{c}"', '5'),
    ('define s "x" define f begin printf "{s}|{}" 1 end f', 'x|1'),
    ('define c 5 define f with c begin printf "{c}" end f 7', '7'),
    ('define c 5 define f with x begin printf "{x} {c:>3}" end f 7', '7   5'),
]


def value_forms_worker(args):
    from bardolph.parser.parse import Parser
    from bardolph.vm.machine import Machine
    res = report.WorkResult('negative literals as values')
    world.start_function_trace()
    res.sites.add('value-forms')
    for text, want in VALUE_FORMS:
        res.nontrivial += 1
        out = io.StringIO()
        saved = sys.stdout
        world.configure(output=lambda net: std_out_output.configure())
        world.uninstall_real_mode()
        p = Parser()
        try:
            ok = p.parse(text)
        except Exception as ex:
            res.violation('value-forms|compiler raises', 'compiler raises %s: %s\n  script: %s' % (type(ex).__name__, ex, text), inputs={'script': text}, replayed=True)
            continue
        res.reached.add('value-forms')
        if not ok:
            res.violation('value-forms|rejected', 'a value form is not accepted: %s\n  script: %s' % (p.get_errors().strip(), text),
                          inputs={'script': text}, replayed=True)
            continue
        sys.stdout = out
        try:
            m = Machine()
            m.reset()
            m.run(p.get_program())
        finally:
            sys.stdout = saved
        got = out.getvalue()
        if got.rstrip('\n') != want.rstrip('\n'):
            res.violation('value-forms|wrong text', 'stdout %r, expected %r\n  script: %s' % (got, want, text), inputs={'script': text}, replayed=True)
    world.install_real_mode()
    res.sample({'scripts': [t for t, _ in VALUE_FORMS]})
    res.functions = world.functions_seen()
    return res


def run(tier, seed):
    t0 = time.time()
    cases = build_cases(tier, seed)
    items = [{'case': c, 'max_paths': 200 if tier == 'quick' else 1000, 'budget_s': 10 if tier == 'quick' else 60} for c in cases]
    items.append({'sequence': True, 'stops': 40})
    items.append({'forms': True})
    results, skipped = report.run_pool(lambda a: sequence_worker(a) if 'sequence' in a else (value_forms_worker(a) if 'forms' in a else worker(a)), items, budget_s=common.tier_budget(tier, 60, 600))
    return report.finish(
        PROP, tier, seed, 'exploration', results, skipped,
        rule='work item = one program of 2..5 output statements (print / println / printf with anonymous, numbered, named, spec and escaped '
             'fields; values of every kind) wrapped in symbolic-condition if/else and loops and interleaved with device commands; the job runs '
             'with the production output binding and sys.stdout replaced by a recording stream; on every feasible path the bytes written, and '
             'their position relative to device commands, are compared with the text the reference semantics (Python str/str.format) produces; plus: a script run after '
             'another one that ended or was stopped before VM step k (every k) writes exactly what it writes when run alone',
        assumptions=common.SCRIPT_ASSUMPTIONS[:3] + [
            'printed values are concrete (their text is the observable); the solver decides the control flow around the output statements',
            'a line break at the very end of the output is accepted either way; printf is always followed by an explicit println in generated programs'],
        bounds={'programs': len(cases), 'fields_per_format': '<=4', 'statements': '2..5'},
        t0=t0, technique='bounded symbolic execution of the real IoParser/VmIo/StdOutOutput path with symbolic control flow (proxy objects, z3), byte-exact comparison of stdout')


def replay(v):
    print(v['message'])
    return 0
