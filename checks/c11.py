"""C11 -- time-of-day patterns match exactly the times they denote; alternatives mean OR."""
import itertools
import random
import time

import z3

from bardolph.lib.time_pattern import TimePattern
from bardolph.parser.parse import Parser
from bardolph.vm.machine import Machine

from vlib import report, rx2z3, scripth, symx, world
from checks import common

PROP = 'C11'
DIG = '0123456789'
HOUR_FIELDS = ['*'] + ['*' + d for d in DIG] + [d + '*' for d in DIG] + list(DIG) + [a + b for a in DIG for b in DIG]
MIN_FIELDS = ['*'] + ['*' + d for d in DIG] + [d + '*' for d in DIG] + [a + b for a in DIG for b in DIG]


# ---- specification ----------------------------------------------------------------
def field_formula(field, n, two_digit_only):
    """z3 formula: number n (Int term) agrees with the field at every non-wildcard position."""
    if field == '*':
        return z3.BoolVal(True)
    tens, units = n / 10, n % 10
    if len(field) == 1:
        return z3.BoolVal(False) if two_digit_only else n == int(field)
    c0, c1 = field
    f = []
    if c0 != '*':
        f.append(tens == int(c0))
    if c1 != '*':
        f.append(units == int(c1))
    return z3.And(*f) if f else z3.BoolVal(True)


def denotes(pattern, h, m):
    hf, mf = pattern.split(':')
    return z3.And(field_formula(hf, h, False), field_formula(mf, m, True))


def spec_times(pattern):
    """concrete set of (h, m) the pattern denotes (for acceptance: non-empty)."""
    hf, mf = pattern.split(':')

    def ok(field, n, two):
        if field == '*':
            return True
        if len(field) == 1:
            return (not two) and n == int(field)
        s = '%02d' % n
        return all(a == '*' or a == b for a, b in zip(field, s))
    return [(h, m) for h in range(24) for m in range(60) if ok(hf, h, False) and ok(mf, m, True)]


# ---- symbolic view of the implementation's sets ----------------------------------------
class SetView:
    """Wraps a concrete container of ints held by a TimePattern so that the real
    match() can be executed on symbolic hour/minute numbers."""
    def __init__(self, items):
        self.items = sorted(items)

    def __contains__(self, x):
        if symx.is_sym(x):
            t = symx.term(x)
            return bool(symx.SymBool(z3.Or(*[t == k for k in self.items]) if self.items else z3.BoolVal(False)))
        return x in self.items

    def __iter__(self):
        return iter(self.items)

    def __len__(self):
        return len(self.items)


def wrap_sets(obj, depth=0):
    """Replace set-valued state (possibly nested in lists/tuples) by SetViews.  Returns
    the number of containers wrapped; 0 means the representation is not set-based."""
    n = 0

    def conv(v):
        nonlocal n
        if isinstance(v, (set, frozenset)):
            n += 1
            return SetView(v)
        if isinstance(v, list):
            return [conv(x) for x in v]
        if isinstance(v, tuple):
            return tuple(conv(x) for x in v)
        if isinstance(v, TimePattern) and depth < 3:
            n += wrap_sets(v, depth + 1)
            return v
        return v
    for k, v in list(vars(obj).items()):
        nv = conv(v)
        if nv is not v or isinstance(v, (list, tuple)):
            try:
                setattr(obj, k, nv)
            except Exception:
                pass
    return n


def sym_match_check(ctx_explore_stats, tp_factory, spec_formula_fn, res, label, site):
    """Explore tp.match(h, m) for symbolic h, m; assert equality with the spec formula."""
    holder = {}

    def harness(ctx):
        h = ctx.int('h', 0, 23)
        m = ctx.int('m', 0, 59)
        tp = tp_factory()
        if tp is None:
            return h, m, None, 0
        wrapped = wrap_sets(tp)
        got = tp.match(h, m)
        return h, m, got, wrapped
    bad = None
    for ctx, out in symx.explore(harness, max_paths=64, timeout_ms=5000, stats=res.stats):
        if isinstance(out, symx.Abort):
            res.out_of_bound += 1
            continue
        h, m, got, wrapped = out
        res.nontrivial += 1
        if wrapped == 0 and got is not None:
            holder['unwrapped'] = True
        hz, mz = z3.ToInt(h.e), z3.ToInt(m.e)
        spec = spec_formula_fn(hz, mz)
        gotf = symx.truth(got) if got is not None else z3.BoolVal(False)
        verdict, model = ctx.prove(gotf == spec)
        if verdict == 'unsat':
            res.reached.add(site)
        elif verdict == 'unknown':
            res.inconclusive.append(label)
        else:
            res.reached.add(site)
            mv = ctx.model_values(model)
            bad = (mv['h'], mv['m'])
            break
    return bad, holder.get('unwrapped', False)


# ---- workers -----------------------------------------------------------------------
def regex_worker(args):
    res = report.WorkResult('regex-lemma')
    res.sites.add('regex')
    tr = rx2z3.translate(TimePattern.REGEX_SPEC)
    d = z3.Range('0', '9')
    star = z3.Re('*')
    hf = z3.Union(star, z3.Concat(star, d), z3.Concat(d, star), d, z3.Concat(d, d))
    mf = z3.Union(z3.Concat(d, d), z3.Concat(d, star), z3.Concat(star, d), star)
    spec = z3.Concat(hf, z3.Re(':'), mf)
    s = z3.String('p')
    nows = z3.InRe(s, z3.Star(z3.Intersect(rx2z3.ASCII, z3.Complement(z3.Union(*[z3.Re(c) for c in rx2z3.SPACE_CHARS])))))
    t0 = time.time()
    for name, f in (('impl-not-spec', z3.And(z3.InRe(s, tr.re), z3.Not(z3.InRe(s, spec)))),
                    ('spec-not-impl', z3.And(z3.InRe(s, spec), z3.Not(z3.InRe(s, tr.re))))):
        sol = z3.Solver()
        sol.set('timeout', 30000)
        sol.add(nows, z3.Length(s) <= 8, f)
        r = str(sol.check())
        res.stats.queries += 1
        res.nontrivial += 1
        if r == 'unsat':
            res.stats.proved += 1
            res.stats.q_unsat += 1
            res.reached.add('regex')
        elif r == 'sat':
            res.stats.refuted += 1
            w = rx2z3.decode(sol.model().eval(s, model_completion=True).as_string())
            real = TimePattern.REGEX.match(w) is not None
            res.violation('regex|' + name, 'pattern syntax: %r is %s by the implementation regex but the documented shape says otherwise (re says %s)'
                          % (w, 'accepted' if name == 'impl-not-spec' else 'rejected', real), inputs={'pattern': w},
                          replayed=(real == (name == 'impl-not-spec')))
        else:
            res.stats.inconclusive += 1
            res.inconclusive.append('regex ' + name)
    res.stats.solver_s += time.time() - t0
    # encoding validation: witnesses of both languages against re itself
    wit, _ = rx2z3.witnesses(z3.And(z3.InRe(s, tr.re), z3.Length(s) <= 6), s, 12)
    for w in wit:
        w = rx2z3.decode(w)
        if TimePattern.REGEX.match(w) is None:
            res.error = 'rx2z3 validation: %r in translated language but re rejects it' % w
    non, _ = rx2z3.witnesses(z3.And(z3.Not(z3.InRe(s, tr.re)), nows, z3.Length(s) <= 5, z3.Length(s) >= 3,
                                    z3.InRe(s, z3.Star(z3.Union(d, star, z3.Re(':'))))), s, 12)
    for w in non:
        w = rx2z3.decode(w)
        mm = TimePattern.REGEX.match(w)
        if mm is not None and mm.end() == len(w):
            res.error = 'rx2z3 validation: %r outside translated language but re accepts it' % w
    res.sample({'lemma': 'L(REGEX_SPEC, whitespace-free, look-ahead=end) == H:M shapes', 'witnesses_in': wit[:4], 'witnesses_out': non[:4]})
    return res


def denotation_worker(args):
    res = report.WorkResult('denotation %s' % args['label'])
    world.start_function_trace()
    res.sites.update(['denotation', 'acceptance'])
    for pat in args['patterns']:
        times = spec_times(pat)
        should_accept = len(times) > 0
        tp = TimePattern.from_string(pat)
        # acceptance at the compile level (literal, and through a macro)
        # ... and as a later alternative of a list whose other patterns are valid: the list is accepted exactly when this one is
        for text in ('time at %s on all' % pat, 'define tp %s\ntime at tp on all' % pat, 'time at 1:00 or %s on all' % pat, 'time at 1:00 or 2:3* or %s on all' % pat):
            world.configure(())
            p = Parser()
            ok = p.parse(text)
            res.reached.add('acceptance')
            if ok != should_accept:
                res.violation('acceptance|%s' % ('accepted-but-matches-nothing' if ok else 'rejected-but-valid'),
                              'pattern %s: compiler %s it, but it denotes %d time(s) of day\n  script: %s\n  errors: %s'
                              % (pat, 'accepts' if ok else 'rejects', len(times), text, p.get_errors().strip()),
                              inputs={'pattern': pat, 'script': text}, replayed=True)
            elif not ok and 'Line ' not in p.get_errors():
                res.violation('acceptance|no-message', 'pattern %s rejected without a line-numbered message' % pat,
                              inputs={'pattern': pat}, replayed=True)
        if not should_accept:
            continue
        bad, unwrapped = sym_match_check(None, lambda: TimePattern.from_string(pat), lambda h, m: denotes(pat, h, m), res, pat, 'denotation')
        if unwrapped:
            # representation not set-based: decide by the concrete table instead (stated in the evidence)
            res.extra['fallback_concrete'] = res.extra.get('fallback_concrete', 0) + 1
            tp2 = TimePattern.from_string(pat)
            exp = set(times)
            for h in range(24):
                for m in range(60):
                    if bool(tp2.match(h, m)) != ((h, m) in exp):
                        bad = (h, m)
        if bad is not None:
            h, m = bad
            tp3 = TimePattern.from_string(pat)
            real = bool(tp3.match(h, m)) if tp3 is not None else False
            expv = (h, m) in set(times)
            res.violation('denotation|%s' % ('misses' if expv else 'extra'),
                          'pattern %s: match(%d, %02d) is %s but the pattern %s that time' % (pat, h, m, real, 'denotes' if expv else 'does not denote'),
                          inputs={'pattern': pat, 'hour': h, 'minute': m}, replayed=(real != expv))
    if args['label'] == '0':
        # digits outside ASCII (the pattern regex says \\d): whatever the compiler accepts must match some time of day
        for pat in ('\u0661\u0662:\u0660\u0660', '1\u0662:00', '\uff18:\uff10\uff10', '8:\u0665*', '\u0968*:*5', '*:\u0be6\u0be6'):
            res.nontrivial += 1
            world.configure(())
            p = Parser()
            text = 'time at %s on all' % pat
            if p.parse(text):
                tp = TimePattern.from_string(pat)
                n = sum(1 for h in range(24) for m in range(60) if tp is not None and tp.match(h, m))
                if n == 0:
                    res.violation('acceptance|accepted-but-matches-nothing', 'pattern %r (digits outside ASCII): the compiler accepts it, but it matches no time of day\n  script: %r'
                                  % (pat, text), inputs={'pattern': pat, 'script': text}, replayed=True)
    res.sample({'patterns': args['patterns'][:5], 'count': len(args['patterns'])})
    res.functions = world.functions_seen()
    return res


RED = '0125 9*'.replace(' ', '')


def reduced_patterns():
    hf = ['*'] + [a + b for a in RED for b in RED if not (a == '*' and b == '*')] + [d for d in RED if d != '*']
    mf = ['*'] + [a + b for a in RED for b in RED if not (a == '*' and b == '*')]
    pats = [h + ':' + m for h in hf for m in mf]
    return [p for p in pats if spec_times(p) and p != '*:*']


def run_script_patterns(text):
    """Compile and run `text` with the recording clock; returns (list of pattern objects waited for, net, program)."""
    net = world.configure(())
    p = Parser()
    if not p.parse(text):
        return None, net, p.get_errors()
    prog = p.get_program()
    m = Machine()
    m.reset()
    scripth._instrument(m, 2000)
    m.run(prog)
    return [e[1] for e in net.trace if e[0] == 'wait_until'], net, prog


def union_worker(args):
    res = report.WorkResult('alternatives %s' % args['label'])
    world.start_function_trace()
    res.sites.add('alternatives')
    for li, alts in enumerate(args['lists']):
        text = 'time at %s on all' % ' or '.join(alts)
        if li < 12:
            # the wait survives unit switches before and after the pattern is set, in every direction
            for pre_, post_ in (('units raw ', 'units logical '), ('', 'units raw '), ('units rgb ', 'units raw units rgb '), ('units raw ', 'units rgb units raw ')):
                t2 = '%stime at %s %son all' % (pre_, ' or '.join(alts), post_)
                waits2, net2, prog2 = run_script_patterns(t2)
                res.nontrivial += 1
                if waits2 is None or net2.aborted or len(waits2) != 1 or not any(e[0] == 'all_power' for e in net2.trace):
                    res.violation('alternatives|unit switches', 'the wait of %r is lost or the script stops: waits %r, %s'
                                  % (t2, waits2, net2.aborted if waits2 is not None else prog2), inputs={'script': t2}, replayed=True)
                    break

        def factory():
            waits, net, prog = run_script_patterns(text)
            if waits is None or len(waits) != 1:
                return None
            return waits[0]
        waits, net, prog = run_script_patterns(text)
        if waits is None:
            res.violation('alternatives|rejected', 'valid alternative list rejected: %s: %s' % (text, prog), inputs={'script': text}, replayed=True)
            continue
        bad, unwrapped = sym_match_check(None, factory, lambda h, m: z3.Or(*[denotes(a, h, m) for a in alts]), res, text, 'alternatives')
        if unwrapped:
            res.extra['fallback_concrete'] = res.extra.get('fallback_concrete', 0) + 1
            tp = factory()
            exp = set().union(*[set(spec_times(a)) for a in alts])
            for h in range(24):
                for m in range(60):
                    if bool(tp.match(h, m)) != ((h, m) in exp):
                        bad = (h, m)
        if bad is not None:
            h, m = bad
            tp = factory()
            real = bool(tp.match(h, m))
            expv = any((h, m) in set(spec_times(a)) for a in alts)
            res.violation('alternatives|%s' % ('fires-for-no-listed-pattern' if real else 'misses'),
                          '%s: waits until a pattern for which match(%d, %02d) is %s, but %s of the listed patterns denotes %d:%02d'
                          % (text, h, m, real, 'one' if expv else 'none', h, m), inputs={'script': text, 'hour': h, 'minute': m}, replayed=(real != expv))
    res.sample({'lists': [' or '.join(a) for a in args['lists'][:3]], 'count': len(args['lists'])})
    res.functions = world.functions_seen()
    return res


# ---- the wait itself: the real Clock.wait_until against a wall clock that keeps moving ---------------
def clockwait_worker(args):
    """Clock.wait_until(pattern) with datetime.now() a stub returning arbitrary non-decreasing instants (a symbolic
    minute of the day; every reading may come 0..2 minutes after the previous one).  When the wait ends, the time the
    pattern was matched against must be a time the wall clock actually showed at one of its readings, and the pattern
    must denote it."""
    import bardolph.lib.clock as clock_mod
    res = report.WorkResult('clock wait %s' % args['label'])
    world.start_function_trace()
    res.sites.add('clock-wait')
    POLLS = args['polls']

    for alts in args['lists']:
        text = 'time at %s on all' % ' or '.join(alts)

        def harness(ctx, plain=None):
            waits, net, prog = run_script_patterns(text)
            if waits is None or len(waits) != 1:
                return None
            tp = waits[0]
            if plain is None:
                wrap_sets(tp)
            readings = []
            ticks = []
            state = {'t': ctx.int('t0', 0, 1439) if plain is None else plain['t0'], 'n': 0}

            class Now:
                def __init__(self, t):
                    self.hour = (t // 60) % 24
                    self.minute = t % 60

            class DT:
                @staticmethod
                def now():
                    state['n'] += 1
                    if state['n'] > 1:
                        d = ctx.int('dt_%d' % state['n'], 0, 2) if plain is None else plain.get('dt_%d' % state['n'], 0)
                        state['t'] = state['t'] + d
                    readings.append(state['t'])
                    return Now(state['t'])

            class Ev:
                polls = 0
                def wait(self, timeout=None):
                    Ev.polls += 1
                    if Ev.polls > POLLS:
                        raise symx.Abort('poll bound')
                    if timeout is None:
                        return True
                    # a tick inside the time-out, or the time-out running out first (clock thread held up)
                    if plain is None:
                        k = ctx.choose(2, 'tick-or-timeout')
                        ticks.append(k)
                        return k == 0
                    return (plain['ticks'].pop(0) == 0) if plain.get('ticks') else True
                def set(self): pass
                def clear(self): pass

            class NoThreads:
                class Thread:
                    def __init__(self, *a, **k): pass
                    def start(self): pass
                Event = Ev
            used = []
            t_first = state['t']
            orig = tp.match

            def spy(h, m):
                r = orig(h, m)
                used.append((h, m, r))
                return r
            tp.match = spy
            saved = (clock_mod.datetime, clock_mod.threading)
            clock_mod.datetime, clock_mod.threading = DT, NoThreads
            try:
                c = clock_mod.Clock()
                c._event = Ev()
                c.wait_until(tp)
            finally:
                clock_mod.datetime, clock_mod.threading = saved
            return readings, used, Ev.polls, t_first, list(ticks)
        n_paths = 0
        for ctx, out in symx.explore(harness, max_paths=args['max_paths'], timeout_ms=5000, stats=res.stats):
            if isinstance(out, symx.Abort):
                res.out_of_bound += 1
                continue
            if out is None:
                break
            readings, used, polls, t_first, ticks = out
            n_paths += 1
            res.nontrivial += 1
            T = lambda x: z3.ToInt(symx.term(x))
            # a wait that begins inside a matching minute ends at once, without waiting for a tick
            at_call = z3.Or(*[denotes(a, (T(t_first) / 60) % 24, T(t_first) % 60) for a in alts])
            prompt = z3.Implies(at_call, z3.BoolVal(polls == 0))
            if not used:
                verdict, model = ctx.prove(prompt)
                h = m = None
            else:
                h, m, r = used[-1]
                shown = z3.Or(*[z3.And(T(h) == (T(t) / 60) % 24, T(m) == T(t) % 60) for t in readings])
                spec = z3.Or(*[denotes(a, T(h), T(m)) for a in alts])
                verdict, model = ctx.prove(z3.And(shown, spec, prompt))
            res.reached.add('clock-wait')
            if verdict == 'unsat':
                continue
            if verdict == 'unknown':
                res.inconclusive.append(text)
                continue
            mv = {k: int(v) for k, v in ctx.model_values(model).items() if not isinstance(v, bool)}
            mv['ticks'] = list(ticks)
            saved_ctx = symx.Ctx.cur
            symx.Ctx.cur = None
            try:
                try:
                    rd, us, pl, tf, _ = harness(None, plain=mv)
                except symx.Abort:
                    rd, us, pl, tf = [], [], 0, 0
            finally:
                symx.Ctx.cur = saved_ctx
            ok = False
            desc = ''
            shown_c = True
            fmt = lambda t: '%d:%02d' % ((t // 60) % 24, t % 60)
            den_t = lambda t: any(((t // 60) % 24, t % 60) in set(spec_times(a)) for a in alts)
            if us:
                hh, mm, _ = us[-1]
                shown_c = any((hh, mm) == ((t // 60) % 24, t % 60) for t in rd)
                den = any((hh, mm) in set(spec_times(a)) for a in alts)
                ok = not (shown_c and den)
                desc = 'the wait ended on %d:%02d; wall clock readings were %s' % (hh, mm, [fmt(t) for t in rd])
            if not ok and den_t(tf) and pl > 0:
                ok = True
                shown_c = True
                desc = 'the wait began at %s, which the list denotes, but waited for %d tick(s) before it looked at the clock (readings %s)' % (fmt(tf), pl, [fmt(t) for t in rd])
                res.violation('clock-wait|not-prompt', '%s: %s' % (text, desc), inputs={'script': text, 'values': mv}, replayed=True)
                break
            res.violation('clock-wait|%s' % ('time-never-shown' if us and not shown_c else 'time-not-denoted'),
                          '%s: %s' % (text, desc), inputs={'script': text, 'values': mv}, replayed=ok)
            break
    res.sample({'lists': [' or '.join(a) for a in args['lists'][:3]], 'polls': POLLS})
    res.functions = world.functions_seen()
    return res


def table(tp):
    return frozenset((h, m) for h in range(24) for m in range(60) if tp.match(h, m))


def aliasing_worker(args):
    """Using a pattern never changes what it or another pattern matches later."""
    res = report.WorkResult('aliasing')
    world.start_function_trace()
    res.sites.add('aliasing')
    scripts = []
    for a, b in args['pairs']:
        scripts.append(('loop-literals', 'repeat 2 begin time at %s or %s on all end\ntime at %s off all' % (a, b, a), [[a, b], [a, b], [a]]))
        scripts.append(('macro-reused', 'define p %s\ndefine q %s\ntime at p or q on all\ntime at p off all\ntime at q on all' % (a, b), [[a, b], [a], [b]]))
        scripts.append(('variable', 'assign v %s\ntime at %s or %s on all\nassign w v\ntime at %s off all' % (a, a, b, a), [[a, b], [a]]))
    for tag, text, expected in scripts:
        waits, net, prog = run_script_patterns(text)
        res.nontrivial += 1
        if waits is None:
            res.violation('aliasing|rejected', 'valid script rejected: %s\n%s' % (prog, text), inputs={'script': text}, replayed=True)
            continue
        res.reached.add('aliasing')
        if net.aborted or len(waits) != len(expected):
            res.violation('aliasing|waits', '%s: expected %d time-of-day waits, saw %d (%s)\n%s' % (tag, len(expected), len(waits), net.aborted, text),
                          inputs={'script': text}, replayed=True)
            continue
        # decide each wait's denotation with symbolic (h, m)
        for i, (tp, alts) in enumerate(zip(waits, expected)):
            snapshot = tp

            def factory(tp=tp):
                import copy
                return copy.deepcopy(tp)
            bad, unwrapped = sym_match_check(None, factory, lambda h, m: z3.Or(*[denotes(a, h, m) for a in alts]), res, text, 'aliasing')
            if unwrapped:
                exp = set().union(*[set(spec_times(a)) for a in alts])
                bad = next(((h, m) for h in range(24) for m in range(60) if bool(tp.match(h, m)) != ((h, m) in exp)), None)
            if bad is not None:
                h, m = bad
                res.violation('aliasing|%s' % tag, '%s: wait #%d should be for %s but its pattern gives match(%d, %02d) = %s\n%s'
                              % (tag, i + 1, ' or '.join(alts), h, m, bool(tp.match(h, m)), text), inputs={'script': text}, replayed=True)
                break
    res.sample({'scripts': [s[1] for s in scripts[:2]]})
    res.functions = world.functions_seen()
    return res


def dispatch(args):
    return {'regex': regex_worker, 'denotation': denotation_worker, 'union': union_worker, 'aliasing': aliasing_worker, 'clockwait': clockwait_worker}[args['kind']](args)


def run(tier, seed):
    t0 = time.time()
    rng = random.Random(seed)
    pats = [h + ':' + m for h in HOUR_FIELDS for m in MIN_FIELDS]
    items = [{'kind': 'regex'}]
    chunk = 200
    if tier == 'quick':
        # every hour field with 6 minute fields and every minute field with 6 hour fields (all fields covered),
        # plus a seeded selection of full patterns
        sel = set()
        for h in HOUR_FIELDS:
            for m in ['*', '00', '59', '5*', '*9', '60']:
                sel.add(h + ':' + m)
        for m in MIN_FIELDS:
            for h in ['*', '0', '23', '24', '2*', '*9']:
                sel.add(h + ':' + m)
        sel.update(rng.sample(pats, 1500))
        pats_run = sorted(sel)
    else:
        pats_run = pats
    for i in range(0, len(pats_run), chunk):
        items.append({'kind': 'denotation', 'label': str(i // chunk), 'patterns': pats_run[i:i + chunk]})
    red = reduced_patterns()
    pairs = list(itertools.permutations(red, 2))
    rng.shuffle(pairs)
    triples = [tuple(rng.sample(red, 3)) for _ in range(2000 if tier == 'quick' else 30000)]
    lists = (pairs[:4000] if tier == 'quick' else pairs) + triples
    lists += [('8:00', '9:30'), ('*:15', '*:45'), ('8:00', '9:30', '1*:*5')]
    for i in range(0, len(lists), 150):
        items.append({'kind': 'union', 'label': str(i // 150), 'lists': lists[i:i + 150]})
    items.append({'kind': 'aliasing', 'pairs': [('8:00', '9:30'), ('*:15', '2*:45'), ('1:*5', '*:00')] + pairs[:20]})
    cw = [('8:00',), ('*:00',), ('*3:00',), ('8:00', '13:4*'), ('0:00',), ('*:*5',), ('2*:5*', '0:0*')] + [tuple(x) for x in lists[:10 if tier == 'quick' else 300]]
    for i in range(0, len(cw), 4):
        items.append({'kind': 'clockwait', 'label': str(i // 4), 'lists': cw[i:i + 4], 'polls': 2 if tier == 'quick' else 3, 'max_paths': 400 if tier == 'quick' else 4000})
    results, skipped = report.run_pool(dispatch, items, budget_s=common.tier_budget(tier, 75, 900))
    fb = sum(r.extra.get('fallback_concrete', 0) for r in results)
    return report.finish(
        PROP, tier, seed, 'exploration', results, skipped,
        rule='(1) regex lemma (z3 regular expressions): the implementation pattern regex and the documented H:M shapes accept the same whitespace-free strings '
             'up to length 8; (2) for well-formed patterns (all 15851 in thorough; every field plus 1500 seeded full patterns in quick): compile-time acceptance iff the '
             'pattern denotes some time, and TimePattern.match(h, m) executed on symbolic hour/minute equals the denotation formula (z3, all 1440 times at once); '
             '(3) alternative lists (pairs exhaustive over a reduced alphabet in thorough, seeded pairs/triples in quick) compiled and run on the real VM: the pattern '
             'waited for matches exactly the OR of the listed patterns; (4) loops/macros/variables reuse patterns without changing any denotation',
        assumptions=['hour in 0..23 and minute in 0..59 are symbolic integers; the pattern text is concrete per work unit (strings cannot be symbolic in the proxy engine)',
                     'match() is executed on symbolic numbers by wrapping the set-valued state of the TimePattern object in symbolic-membership views; if an implementation '
                     'keeps no sets the check falls back to the concrete 24x60 table for that pattern (count reported as fallback_concrete)',
                     'the look-ahead at the end of the pattern regex is treated as end-of-string for whitespace-free pattern text'],
        bounds={'patterns_checked': len(pats_run), 'of_well_formed': len(pats), 'alternative_lists': len(lists), 'reduced_alphabet': RED, 'pattern_length': '<=8 for the regex lemma'},
        t0=t0, technique='z3 regex equivalence for the pattern syntax; symbolic execution of TimePattern.match on symbolic hour/minute (proxy objects, z3 LIA) against a denotation formula',
        extra_cov={'fallback_concrete': fb})


def replay(v):
    print(v['message'])
    return 0
