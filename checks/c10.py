"""C10 -- delays run on one time line from script start; time-of-day waits restart it."""
import time

import z3

import bardolph.lib.clock as clock_mod
from bardolph.lib import i_lib, injection
from bardolph.parser.parse import Parser
from bardolph.vm.machine import Machine

from vlib import report, scripth, symx, world
from vlib.refsem import SENT_BASE
from checks import common

PROP = 'C10'
TICK_BOUND = 4          # raised to 6 in the thorough tier


class VTime:
    """Stands in for the `time` module inside bardolph.lib.clock: a symbolic, non-decreasing clock."""
    def __init__(self, ctx):
        self.ctx = ctx
        self.now = ctx.real('t_start', 0, 10 ** 6)
        self.n = 0

    def time(self):
        return self.now

    def sleep(self, d):
        self.now = self.now + d

    def fresh(self, name, lo=0, hi=None):
        self.n += 1
        return self.ctx.real('%s_%d' % (name, self.n), lo, hi)

    def require(self, cond):
        self.ctx.assume(cond)

    def advance(self, name, lo=0, hi=None, strict=False):
        d = self.fresh(name, lo, hi)
        if strict:
            self.ctx.assume(d.e > 0)
        self.now = self.now + d
        return d


class CTime:
    """The same clock on the plain numbers of a solver model (replay)."""
    def __init__(self, mv):
        self.mv = mv
        self.now = mv.get('t_start', 0.0)
        self.n = 0

    def time(self):
        return self.now

    def sleep(self, d):
        self.now += d

    def fresh(self, name, lo=0, hi=None):
        self.n += 1
        return self.mv.get('%s_%d' % (name, self.n), self.mv.get('tick_len', 1.0) if name == 'tick' else 0.0)

    def require(self, cond):
        pass

    def advance(self, name, lo=0, hi=None, strict=False):
        d = self.fresh(name, lo, hi)
        self.now += d
        return d


class Ev:
    """Stands in for threading.Event as the clock thread drives it (set + clear at every tick): wait()
    returns True at the next tick, or False after `timeout` when no tick falls inside it.  Tick intervals are
    arbitrary in (0, tick]; the instant of the pending tick is kept across a timed-out wait."""
    def __init__(self, vt, tick):
        self.vt, self.tick = vt, tick
        self.waits = 0
        self.total_waits = 0
        self.timeouts = 0
        self.next_tick = None
        self.bound = None

    def wait(self, timeout=None):
        self.waits += 1
        self.total_waits += 1
        if self.waits > (self.bound or TICK_BOUND):
            raise symx.Abort('tick bound')
        vt = self.vt
        if self.next_tick is None or not (self.next_tick > vt.now):
            d = vt.fresh('tick', 0, None)
            vt.require(d > 0)
            vt.require(d <= self.tick)
            self.next_tick = vt.now + d
        if timeout is not None and self.next_tick - vt.now > timeout:
            vt.now = vt.now + timeout
            self.timeouts += 1
            return False
        vt.now = self.next_tick
        self.next_tick = None
        return True

    def set(self):
        pass

    def clear(self):
        pass


class NoThreads:
    class Thread:
        def __init__(self, *a, **k): pass
        def start(self): pass

    class Event:
        def wait(self, timeout=None): return True
        def set(self): pass
        def clear(self): pass


class Pattern(i_lib.TimePattern):
    """A time-of-day pattern whose matching minute arrives after an arbitrary number of polls."""
    def __init__(self, ctx, log=None):
        self.ctx = ctx
        self.polls = 0
        self.log = [] if log is None else log

    def match(self, h, m):
        self.polls += 1
        r = True if self.polls > 3 else self.ctx.choose(2, 'minute-arrived') == 1
        self.log.append(r)
        return r


class ReplayPattern(i_lib.TimePattern):
    """The answers a Pattern gave on the path being replayed."""
    def __init__(self, answers):
        self.answers = list(answers)

    def match(self, h, m):
        return self.answers.pop(0) if self.answers else True


class Now:
    hour, minute = 12, 0


class DT:
    @staticmethod
    def now():
        return Now()


def install(ctx):
    vt = VTime(ctx)
    tick = ctx.real('tick_len', None, 10)
    ctx.assume(tick.e > 0)
    saved = (clock_mod.time, clock_mod.threading, clock_mod.datetime)
    clock_mod.time = vt
    clock_mod.threading = NoThreads
    clock_mod.datetime = DT
    return vt, tick, saved


def restore(saved):
    clock_mod.time, clock_mod.threading, clock_mod.datetime = saved


def clock_worker(args):
    plan = args['plan']          # list of 'd' (delay) / 'z' (zero delay) / 'p' (time-of-day wait)
    res = report.WorkResult('clock %s' % ''.join(plan))
    world.start_function_trace()
    res.sites.update(['never-early', 'one-tick', 'no-accumulated-lateness', 'zero-delay'])
    if 'p' in plan:
        res.sites.add('restart')

    def harness(ctx):
        vt, tick, saved = install(ctx)
        try:
            world.configure(())
            c = clock_mod.Clock()
            c._event = Ev(vt, tick)
            c.start()
            origin = vt.now
            due = 0                       # sum of delays since the origin
            obs = []
            plog = []
            for i, op in enumerate(plan):
                w = vt.advance('work', 0, 1000)          # work done before the statement
                c._event.waits = 0
                t_call = vt.now
                if op == 'p':
                    plog.append([])
                    c.wait_until(Pattern(ctx, plog[-1]))
                    origin = vt.now
                    due = 0
                    obs.append(('p', t_call, vt.now, c._event.waits, origin, due, None))
                else:
                    d = ctx.real('delay_%d' % i, 0, 1000) if op == 'd' else 0
                    due = due + d
                    c.pause_for(d)
                    obs.append((op, t_call, vt.now, c._event.waits, origin, due, d))
            return obs, tick, plog
        finally:
            restore(saved)
    for ctx, out in symx.explore(harness, max_paths=args['max_paths'], timeout_ms=5000, stats=res.stats,
                                 deadline=time.time() + args['budget_s']):
        if isinstance(out, symx.Abort):
            res.out_of_bound += 1
            continue
        obs, tick, plog = out
        res.nontrivial += 1
        T = symx.term
        cons = []
        for i, (op, t_call, t_ret, waits, origin, due, d) in enumerate(obs):
            if op == 'p':
                continue
            target = T(origin) + T(due)
            cons.append(('never-early', 'delay #%d ends before origin + sum of delays' % (i + 1), T(t_ret) >= target))
            # late already: returns at once; otherwise within one tick of the due instant
            cons.append(('no-accumulated-lateness', 'delay #%d: script already late but the clock waited' % (i + 1),
                         z3.Implies(T(t_call) >= target, z3.BoolVal(waits == 0))))
            cons.append(('one-tick', 'delay #%d ends more than one tick after it was due' % (i + 1),
                         z3.Implies(T(t_call) < target, T(t_ret) <= target + T(tick))))
            if op == 'z':
                cons.append(('zero-delay', 'zero delay #%d blocked although nothing was due' % (i + 1),
                             z3.Implies(T(t_call) >= target, z3.BoolVal(waits == 0))))
        for site, desc, f in cons:
            res.reached.add(site)
        if 'p' in plan:
            res.reached.add('restart')
        verdict, model = ctx.prove(z3.And(*[f for _, _, f in cons]) if cons else True)
        if verdict == 'unsat':
            continue
        if verdict == 'unknown':
            res.inconclusive.append(res.label)
            continue
        what = next(desc for _, desc, f in cons if not z3.is_true(model.eval(f, model_completion=True)))
        mv = {k: float(v) if not isinstance(v, bool) else v for k, v in ctx.model_values(model).items()}
        msg = replay_clock(plan, mv, plog)
        res.violation('clock|%s' % scripth._sig_of(what), '%s\n  plan %s, times %s\n  replay: %s' % (what, plan, mv, msg),
                      inputs={'plan': plan, 'values': mv}, replayed=msg is not None)
    if not symx.explore.last_exhaustive:
        res.exhaustive = False
    res.sample({'plan': plan, 'meaning': 'd = timed delay, z = zero delay, p = time-of-day wait; work before each, ticks of arbitrary phase'})
    res.functions = world.functions_seen()
    return res


def replay_clock(plan, mv, plog=()):
    """Concrete replay with the model's instants (floats) on the same event model."""
    saved_ctx = symx.Ctx.cur
    symx.Ctx.cur = None
    ct = CTime(mv)
    plog = [list(x) for x in plog]
    tick = mv.get('tick_len', 1.0)
    saved = (clock_mod.time, clock_mod.threading, clock_mod.datetime)
    clock_mod.time, clock_mod.threading, clock_mod.datetime = ct, NoThreads, DT
    try:
        world.configure(())
        c = clock_mod.Clock()
        ev = Ev(ct, tick)
        c._event = ev
        c.start()
        origin, due = ct.now, 0.0
        for i, op in enumerate(plan):
            ct.advance('work')
            ev.waits = 0
            t_call = ct.now
            if op == 'p':
                c.wait_until(ReplayPattern(plog.pop(0) if plog else ()))
                origin, due = ct.now, 0.0
                continue
            d = mv.get('delay_%d' % i, 0.0) if op == 'd' else 0.0
            due += d
            try:
                c.pause_for(d)
            except symx.Abort:
                return None
            if ct.now < origin + due - 1e-9:
                return 'delay #%d returned at %r, due %r' % (i + 1, ct.now, origin + due)
            if t_call >= origin + due and ev.waits:
                return 'delay #%d waited %d tick(s) although already late' % (i + 1, ev.waits)
            if t_call < origin + due and ct.now > origin + due + tick + 1e-9:
                return 'delay #%d returned %r after due' % (i + 1, ct.now - origin - due)
        return None
    finally:
        clock_mod.time, clock_mod.threading, clock_mod.datetime = saved
        symx.Ctx.cur = saved_ctx


# ---- through the VM: WAIT instruction, unit handling, commands ordered against the time line ----
def vm_worker(args):
    mode, text, sids = args['mode'], args['text'], args['sids']
    res = report.WorkResult('vm-timeline %s' % args['tag'])
    world.start_function_trace()
    res.sites.add('vm-timeline')
    world.configure()
    p = Parser()
    if args.get('after'):
        # the same compiler object had a text rejected first (the way a ScriptJob is reused): the delays of the next script are all there
        assert not p.parse(args['after']), 'accepted: %s' % args['after']
        if not p.parse(text):
            res.violation('vm-timeline|rejected after a rejected text', 'the script is rejected (%s) by a compiler whose previous text %r had been rejected\n  script: %s'
                          % (p.get_errors().strip(), args['after'], text), inputs={'script': text, 'after': args['after']}, replayed=True)
            return res
    else:
        assert p.parse(text), p.get_errors()
    prog = p.get_program()
    slots = [(inst, inst.param0 - SENT_BASE) for inst in prog
             if isinstance(inst.param0, int) and not isinstance(inst.param0, bool) and inst.param0 > SENT_BASE]

    def harness(ctx):
        vt, tick, saved = install(ctx)
        try:
            holder = {}

            def bind_clock(net):
                c = clock_mod.Clock()
                c._event = Ev(vt, tick)
                c._event.bound = args.get('tick_bound')
                holder['clock'] = c
                injection.bind_instance(c).to(i_lib.Clock)
            net = world.configure(clock=bind_clock)
            stamps = []
            orig_ev = net.ev

            def ev(*e):
                if e[0] in ('all_color', 'all_power', 'color', 'power', 'tile', 'zone'):
                    w = vt.advance('work', 0, 50)                # sending takes an arbitrary time
                    holder['clock']._event.waits = 0
                    stamps.append((e[0], vt.now, w))
                orig_ev(*e)
            net.ev = ev
            vals = {}
            for sid in sids:
                vals[sid] = ctx.real('time_%d' % sid, 0, args.get('max_delay', 500) * (1 if mode != 'raw' else 1000))
            for inst, sid in slots:
                inst.param0 = vals[sid]
            t0 = vt.now
            try:
                m = Machine()
                m.reset()
                scripth._instrument(m, 400 * args.get('runs', 1))
                m.run(prog)
                for _ in range(args.get('runs', 1) - 1):
                    # the same Machine (and its Clock object) runs the script again, some arbitrary time later: a new time line
                    vt.advance('between_runs', 0, 100)
                    del stamps[:]
                    holder['clock']._event.waits = 0
                    t0 = vt.now
                    m.reset()
                    m.run(prog)
            finally:
                for inst, sid in slots:
                    inst.param0 = SENT_BASE + sid
            return t0, vals, stamps, net, tick
        finally:
            restore(saved)
    for ctx, out in symx.explore(harness, max_paths=args['max_paths'], timeout_ms=5000, stats=res.stats, deadline=time.time() + args['budget_s']):
        if isinstance(out, symx.Abort):
            res.out_of_bound += 1
            continue
        t0, vals, stamps, net, tick = out
        res.nontrivial += 1
        T = symx.term
        scale = 1000 if mode == 'raw' else 1
        cons = []
        if net.aborted or len(stamps) != len(args['due']):
            verdict, model = ctx.prove(False)
            what = 'run aborted or commands missing: %s %d' % (net.aborted, len(stamps))
        else:
            for i, (stamp, due_sids) in enumerate(zip(stamps, args['due'])):
                due = sum((T(vals[s]) / scale for s in due_sids), z3.RealVal(0))
                cons.append(('command #%d sent before start + sum of its delays' % (i + 1), T(stamp[1]) >= T(t0) + due))
                work = sum((T(st[2]) for st in stamps[:i + 1]), z3.RealVal(0))
                cons.append(('command #%d sent later than its delays, the transmission times and one tick per delay allow' % (i + 1),
                             T(stamp[1]) <= T(t0) + due + work + (i + 1) * T(tick)))
            verdict, model = ctx.prove(z3.And(*[f for _, f in cons]))
            what = None
        if verdict == 'unsat':
            res.reached.add('vm-timeline')
            continue
        if verdict == 'unknown':
            res.inconclusive.append(res.label)
            continue
        res.reached.add('vm-timeline')
        if what is None:
            what = next(d for d, f in cons if not z3.is_true(model.eval(f, model_completion=True)))
        mv = {k: float(v) for k, v in ctx.model_values(model).items() if not isinstance(v, bool)}
        res.violation('vm-timeline|%s' % scripth._sig_of(what), '%s\n  script: %s\n  values: %s' % (what, text, mv), inputs={'script': text, 'values': mv},
                      replayed=True)
    res.sample({'script': text, 'mode': mode})
    res.functions = world.functions_seen()
    return res


# ---- interleavings with the real clock thread ------------------------------------------------------
def sched_worker(args):
    """The real Clock, including its own thread, under the deterministic scheduler: every interleaving
    (within the preemption bound) of the script thread with the clock thread; delays and work are concrete,
    time is virtual (discrete-event)."""
    from vlib import simsched
    delays, works, tick_setting = args['delays'], args['works'], args['tick']
    tick = float(tick_setting)        # the setting may be text, as read from a configuration file
    res = report.WorkResult('clock-thread interleavings delays=%s work=%s tick=%r' % (delays, works, tick_setting))
    world.start_function_trace()
    res.sites.add('interleaving')
    import logging
    logging.disable(logging.CRITICAL)

    def scenario(ctx):
        s = simsched.Sched(ctx, max_preempt=args['preempt'], max_steps=1500)
        saved = (clock_mod.time, clock_mod.threading)
        clock_mod.time = simsched.ShimTime
        clock_mod.threading = simsched.ShimThreading
        try:
            simsched.Sched.cur_sched = None
            world.configure((), extra_settings={'sleep_time': tick_setting})
            simsched.Sched.cur_sched = s
            TClock = simsched.traced(clock_mod.Clock, ['_keep_going', '_cue_time'])
            c = TClock()
            obs = []

            def script():
                c.start()
                t0 = s.now
                due = 0.0
                for d, w in zip(delays, works):
                    simsched.ShimTime.sleep(w) if w else None
                    late = s.now - t0 >= due + d
                    due += d
                    c.pause_for(d)
                    obs.append((s.now - t0, due, late))
                c.stop()
            t = s.spawn(script, 'script')
            s.stop_when = lambda: t.done
            left = s.run()
            problems = []
            if not t.done or s.out_of_steps:
                problems.append('the script thread never gets through its delays (%s)' % (obs,))
            if t.exc is not None:
                problems.append('exception in the script thread: %r' % (t.exc,))
            for i, (at, due, late) in enumerate(obs):
                if at < due - 1e-9:
                    problems.append('delay #%d ended at %.3f s, before the %.3f s due' % (i + 1, at, due))
                if not late and at > due + tick + 1e-9:
                    problems.append('delay #%d ended at %.3f s, more than one tick (%.2f) after the %.3f s due' % (i + 1, at, tick, due))
            return problems, obs
        finally:
            clock_mod.time, clock_mod.threading = saved
            simsched.Sched.cur_sched = None
    seen = {}
    for ctx, out in symx.explore(scenario, max_paths=args['max_paths'], timeout_ms=1000, stats=res.stats, deadline=time.time() + args['budget_s']):
        if isinstance(out, symx.Abort):
            res.out_of_bound += 1
            continue
        problems, obs = out
        res.nontrivial += 1
        res.reached.add('interleaving')
        if problems:
            key = scripth._sig_of(problems[0])[:50]
            if key not in seen:
                seen[key] = (problems[0], obs, [a for a, _ in ctx.trail])
    for key, (msg, obs, trail) in seen.items():
        rctx = symx.Ctx(prefix=trail, stats=symx.Stats())
        symx.Ctx.cur = rctx
        try:
            p2 = scenario(rctx)[0]
        except symx.Abort:
            p2 = []
        finally:
            symx.Ctx.cur = None
        res.violation('interleaving|%s' % key, '%s\n  delays %s, work before each %s, tick %s; observed (end, due, already late) %s\n  replay of the same schedule: %s'
                      % (msg, delays, works, tick, obs, p2[:1]), inputs={'delays': delays, 'works': works, 'schedule': trail}, replayed=bool(p2))
    if not symx.explore.last_exhaustive:
        res.exhaustive = False
    res.sample({'delays': delays, 'work_before_each': works, 'tick': tick})
    res.functions = world.functions_seen()
    return res


# ---- two scripts alive at once: each machine's clock comes from the real binding -------------------
def two_clock_worker(args):
    """clock.configure() as light_module calls it, then two clocks obtained the way Machine obtains its own
    (provide(i_lib.Clock)), used in an interleaved order (a queued script next to a background script):
    each keeps its own time line."""
    ops = args['ops']
    res = report.WorkResult('two clocks %s' % ' '.join('%s:%s' % o for o in ops))
    world.start_function_trace()
    res.sites.add('own-time-line')

    def harness(ctx):
        vt, tick, saved = install(ctx)
        try:
            world.configure(())
            clock_mod.threading = type('T', (), {'Thread': NoThreads.Thread, 'Event': staticmethod(lambda: Ev(vt, tick))})
            clock_mod.configure()                      # the production binding
            clocks = {'A': injection.provide(i_lib.Clock), 'B': injection.provide(i_lib.Clock)}
            origin, due, obs = {}, {}, []
            for i, (who, op) in enumerate(ops):
                c = clocks[who]
                vt.advance('work', 0, 100)
                if op == 'start':
                    c.start()
                    origin[who], due[who] = vt.now, 0
                elif op == 'stop':
                    c.stop()
                else:
                    d = ctx.real('delay_%d' % i, 0, 100)
                    due[who] = due[who] + d
                    c._event.waits = 0
                    t_call = vt.now
                    c.pause_for(d)
                    obs.append((who, i, t_call, vt.now, origin[who], due[who]))
            return obs, tick
        finally:
            restore(saved)
    for ctx, out in symx.explore(harness, max_paths=args['max_paths'], timeout_ms=5000, stats=res.stats, deadline=time.time() + args['budget_s']):
        if isinstance(out, symx.Abort):
            res.out_of_bound += 1
            continue
        obs, tick = out
        res.nontrivial += 1
        T = symx.term
        cons = []
        for who, i, t_call, t_ret, origin, due in obs:
            target = T(origin) + T(due)
            cons.append(('clock %s, statement %d: the delay ends before its own start + sum of its own delays' % (who, i + 1), T(t_ret) >= target))
            cons.append(('clock %s, statement %d: the delay ends more than one tick after it was due' % (who, i + 1),
                         z3.Implies(T(t_call) < target, T(t_ret) <= target + T(tick))))
            cons.append(('clock %s, statement %d: late already but the clock waited' % (who, i + 1), z3.Implies(T(t_call) >= target, T(t_ret) == T(t_call))))
        res.reached.add('own-time-line')
        verdict, model = ctx.prove(z3.And(*[f for _, f in cons]) if cons else True)
        if verdict == 'unsat':
            continue
        if verdict == 'unknown':
            res.inconclusive.append(res.label)
            continue
        what = next(d for d, f in cons if not z3.is_true(model.eval(f, model_completion=True)))
        mv = {k: float(v) for k, v in ctx.model_values(model).items() if not isinstance(v, bool)}
        # replay: the same interleaving on plain numbers
        msg = replay_two(ops, mv)
        res.violation('two-clocks|%s' % scripth._sig_of(what), '%s\n  order of use %s, times %s\n  replay: %s' % (what, ops, mv, msg),
                      inputs={'ops': ops, 'values': mv}, replayed=msg is not None)
        break
    if not symx.explore.last_exhaustive:
        res.exhaustive = False
    res.sample({'order_of_use': ops})
    res.functions = world.functions_seen()
    return res


def replay_two(ops, mv):
    saved_ctx = symx.Ctx.cur
    symx.Ctx.cur = None
    ct = CTime(mv)
    tick = mv.get('tick_len', 1.0)
    saved = (clock_mod.time, clock_mod.threading, clock_mod.datetime)
    clock_mod.time, clock_mod.datetime = ct, DT
    clock_mod.threading = type('T', (), {'Thread': NoThreads.Thread, 'Event': staticmethod(lambda: Ev(ct, tick))})
    try:
        world.configure(())
        clock_mod.configure()
        clocks = {'A': injection.provide(i_lib.Clock), 'B': injection.provide(i_lib.Clock)}
        origin, due = {}, {}
        for i, (who, op) in enumerate(ops):
            c = clocks[who]
            ct.advance('work')
            if op == 'start':
                c.start()
                origin[who], due[who] = ct.now, 0.0
            elif op == 'stop':
                c.stop()
            else:
                d = mv.get('delay_%d' % i, 0.0)
                due[who] += d
                c._event.waits = 0
                t_call = ct.now
                try:
                    c.pause_for(d)
                except symx.Abort:
                    return None
                if ct.now < origin[who] + due[who] - 1e-9:
                    return 'clock %s: delay returned at %r, due %r' % (who, ct.now, origin[who] + due[who])
                if t_call < origin[who] + due[who] and ct.now > origin[who] + due[who] + tick + 1e-9:
                    return 'clock %s: delay returned %r after it was due' % (who, ct.now - origin[who] - due[who])
                if t_call >= origin[who] + due[who] and ct.now > t_call + 1e-9:
                    return 'clock %s: late already but waited %r' % (who, ct.now - t_call)
        return None
    finally:
        clock_mod.time, clock_mod.threading, clock_mod.datetime = saved
        symx.Ctx.cur = saved_ctx


def dispatch(args):
    return {'clock': clock_worker, 'vm': vm_worker, 'sched': sched_worker, 'two': two_clock_worker}[args['kind']](args)


def plans(maxlen):
    import itertools
    out = []
    for k in range(1, maxlen + 1):
        for p in itertools.product('dzp', repeat=k):
            if p.count('p') <= 1:
                out.append(list(p))
    return out


def run(tier, seed):
    global TICK_BOUND
    t0 = time.time()
    q = tier == 'quick'
    if not q:
        TICK_BOUND = 6
    items = [{'kind': 'clock', 'plan': p, 'max_paths': 3000 if q else 60000, 'budget_s': 25 if q else 300} for p in plans(3 if q else 5)]
    S = SENT_BASE
    vm = [('logical', 'time %d on all time %d off all on "A"' % (S + 1, S + 2), [1, 2], [[1], [1, 2], [1, 2, 2]], 'two-delays'),
          ('raw', 'units raw time %d on all time %d off all' % (S + 1, S + 2), [1, 2], [[1], [1, 2]], 'raw-ms'),
          ('logical', 'time %d on "A" and "B" off "C"' % (S + 1), [1], [[1], [1], [1, 1]], 'and-shares-delay'),
          ('rgb', 'units rgb time %d on all time %d off all on "A"' % (S + 1, S + 2), [1, 2], [[1], [1, 2], [1, 2, 2]], 'rgb-seconds'),
          ('rgb', 'time %d units rgb on all units logical off all' % (S + 1), [1], [[1], [1, 1]], 'switch-to-rgb-keeps-delay'),
          ('logical', 'time %d repeat 2 begin on all end' % (S + 1), [1], [[1], [1, 1]], 'loop'),
          ('logical', 'time %d on all units raw off all' % (S + 1), [1], [[1], [1, 1]], 'switch-to-raw-keeps-delay'),
          ('raw', 'units raw duration 700 time %d on all units logical off all units rgb on "A"' % (S + 1), [1], [[1], [1, 1], [1, 1, 1]], 'switch-from-raw-keeps-delay'),
          ('logical', 'duration 3 time %d on all units raw units logical off all units rgb units raw on "A"' % (S + 1), [1], [[1], [1, 1], [1, 1, 1]], 'round-trips-keep-delay'),
          # a matrix block is one timed action however its cells get staged (a routine that stages, several stages)
          ('logical', 'define paint begin stage row 0 end time %d set "M" begin paint paint stage row 1 end on all' % (S + 1), [1], [[1], [1, 1]], 'matrix-block-is-one-action'),
          ('logical', 'time %d set "M" row 0 1 on "A" set "M" begin stage column 1 end off "A"' % (S + 1), [1], [[1], [1, 1], [1, 1, 1], [1, 1, 1, 1]], 'matrix-forms')]
    for mode, text, sids, due, tag in vm:
        items.append({'kind': 'vm', 'mode': mode, 'text': text, 'sids': sids, 'due': due, 'tag': tag,
                      'max_paths': 2000 if q else 20000, 'budget_s': 25 if q else 200})
    for mode, text, sids, due, tag in vm[:2]:
        items.append({'kind': 'vm', 'mode': mode, 'text': text, 'sids': sids, 'due': due, 'tag': tag + '-second-run', 'runs': 2, 'tick_bound': 3, 'max_delay': 0.4,
                      'max_paths': 1500 if q else 20000, 'budget_s': 20 if q else 200})
    for k, first in enumerate(('set "M" begin stage row nosuch end', 'repeat 2 begin time nosuch end', 'define r with a begin set "M" begin hue nosuch',
                               'time 5 set "M" begin time nosuch', 'if {1 > 0} begin time 2 wait hue nosuch')):
        for text, sids, due in (('time %d on "A" time %d off "A" on "B"' % (S + 1, S + 2), [1, 2], [[1], [1, 2], [1, 2, 2]]),
                                ('time %d on all off all' % (S + 1), [1], [[1], [1, 1]])):
            items.append({'kind': 'vm', 'mode': 'logical', 'text': text, 'sids': sids, 'due': due, 'tag': 'after-rejected-%d' % k, 'after': first,
                          'max_paths': 1000 if q else 20000, 'budget_s': 15 if q else 200})
    for delays, works in (([0.3, 0.6], [0, 0]), ([0.3, 0.6], [0.1, 0.7]), ([0.25, 0.25, 0.0], [0, 0.3, 0]), ([1.0], [1.5]), ([0.1, 0.1, 0.1], [0, 0, 0])):
        for tick in (0.25, 0.1, 1.5, '0.25'):
            items.append({'kind': 'sched', 'delays': delays, 'works': works, 'tick': tick, 'preempt': 2 if q else 3,
                          'max_paths': 1500 if q else 60000, 'budget_s': 20 if q else 300})
    A, B = 'A', 'B'
    for ops in ([(A, 'start'), (A, 'd'), (B, 'start'), (B, 'd'), (A, 'd')],
                [(A, 'start'), (B, 'start'), (A, 'd'), (B, 'stop'), (A, 'd')],
                [(A, 'start'), (A, 'd'), (B, 'start'), (A, 'd'), (B, 'd'), (B, 'stop'), (A, 'd')],
                [(B, 'start'), (B, 'd'), (B, 'stop'), (A, 'start'), (A, 'd'), (A, 'd')]):
        items.append({'kind': 'two', 'ops': ops, 'max_paths': 1500 if q else 30000, 'budget_s': 20 if q else 200})
    results, skipped = report.run_pool(dispatch, items, budget_s=common.tier_budget(tier, 70, 900))
    return report.finish(
        PROP, tier, seed, 'exploration', results, skipped,
        rule='work item = one sequence of up to 3 (quick) / 5 (thorough) statements, each a timed delay, a zero delay or a time-of-day wait, executed by the real Clock with '
             'symbolic start instant, delay values, work before each statement, tick length (up to 10 s) and tick phase (tick intervals arbitrary in (0, tick]; Event.wait(timeout) returns False when no tick falls inside the time-out); '
             'or one script on the real VM bound to the real Clock with symbolic time registers and symbolic transmission times. z3 shows on every path: never early, '
             'within one tick when not late, immediate return with no extra delay when late, zero delay never blocks, time line restarts after a time-of-day wait',
        assumptions=['two-clocks part: clock.configure() (the production binding) and provide(i_lib.Clock) as Machine.__init__ does; the two clocks are used from one thread in a fixed interleaved order',
                     'time.time, threading and datetime inside bardolph.lib.clock are stubs: the clock thread is represented by Event.wait returning at the next tick instant',
                     'interleaving part: the real clock thread runs under the deterministic scheduler (discrete-event virtual time, <= 2/3 preemptions) with concrete delays',
                     'at most %d ticks per delay (longer waits are out of bound and counted)' % TICK_BOUND,
                     'a time-of-day wait observes its minute after 0..3 polls (choice variable)'],
        bounds={'statements': 3 if q else 5, 'ticks_per_delay': TICK_BOUND, 'delays': '0..1000 s', 'work': '0..1000 s'},
        t0=t0, technique='bounded symbolic execution of the real Clock and VM WAIT path with time as a symbolic variable (proxy objects, z3 LRA)')


def replay(v):
    print(v['message'])
    return 0
