"""C18 -- replaying a captured snapshot script restores the captured light state exactly."""
import itertools
import time

import z3

from bardolph.controller import snapshot as snapshot_mod
from bardolph.parser.parse import Parser
from bardolph.vm.machine import Machine

from vlib import report, scripth, symx, world
from vlib.refsem import SENT_BASE
from checks import common

PROP = 'C18'

POPS = {
    'none': (),
    'plain1': (('A', 'G1', 'L1', 'plain'),),
    'two-matrices': (('M1', 'G3', 'L2', 'matrix', 0, 1, 2), ('N', 'G1', 'L1', 'plain'), ('O2', 'G3', 'L2', 'matrix', 0, 1, 2)),
    'plain2': (('B b', 'G1', 'L1', 'plain'), ('A', 'G1', 'L2', 'plain')),
    'zone3': (('Z', 'G2', 'L2', 'multizone', 3),),
    'zone1+plain': (('Z', 'G2', 'L2', 'multizone', 1), ('A', 'G1', 'L1', 'plain')),
    'matrix2x2': (('M', 'G3', 'L2', 'matrix', 0, 2, 2),),
    'matrix1x3+plain': (('M', 'G3', 'L2', 'matrix', 0, 1, 3), ('A', 'G1', 'L1', 'plain')),
    'mixed': (('A', 'G1', 'L1', 'plain'), ('Z', 'G2', 'L2', 'multizone', 2), ('M', 'G3', 'L2', 'matrix', 0, 2, 2)),
    'odd-names': (("it's # {x} [y] end", 'G1', 'L1', 'plain'), ('set all', 'G1', 'L1', 'plain')),
    'format-names': (('Shelf {TV}', 'G2', 'L1', 'multizone', 2), ('{}', 'G3', 'L1', 'matrix', 0, 1, 2), ('{0} %s {{1}}', 'G1', 'L1', 'plain'), ('%d', 'G2', 'L1', 'multizone', 1)),
    'backslash-names': (('Porch\\', 'G1', 'L1', 'plain'), ('Porch', 'G1', 'L1', 'plain'), ('a\\b', 'G2', 'L1', 'multizone', 1)),
}
THOROUGH_POPS = {
    'matrix3x3': (('M', 'G3', 'L2', 'matrix', 0, 3, 3),),
    'matrix6x5': (('M', 'G3', 'L2', 'matrix', 0, 6, 5),),
    'zone8+3plain': (('Z', 'G2', 'L2', 'multizone', 8), ('A', 'G1', 'L1', 'plain'), ('B', 'G1', 'L1', 'plain'), ('C', 'G1', 'L1', 'plain')),
    'four-kinds': (('A', 'G1', 'L1', 'plain'), ('B', 'G1', 'L1', 'plain'), ('Z', 'G2', 'L2', 'multizone', 4), ('M', 'G3', 'L2', 'matrix', 0, 3, 3)),
}


def sym_state(ctx, net, prefix):
    """Give every device an arbitrary raw state; returns {label: state dict}."""
    st = {}
    for d in net.devices:
        col = lambda tag: [ctx.int('%s_%s_%s%d' % (prefix, d.label.replace(' ', '_')[:6], tag, i), 0, 65535) for i in range(4)]
        d.color = col('c')
        # off, on as LIFX reports it, on as the project's own fakes and LightSet report it (any non-zero level is on)
        d.power = (0, 65535, 1)[ctx.choose(3 if prefix == 'cap' else 2, prefix + 'power')]
        d.zones = [col('z%d' % i) for i in range(len(d.zones))]
        d.cells = [col('m%d' % i) for i in range(len(d.cells))]
        st[d.label] = {'color': list(d.color), 'power': d.power, 'zones': [list(z) for z in d.zones],
                       'cells': [list(c) for c in d.cells], 'kind': d.kind}
    return st


def conc_state(net, vals, prefix, powers):
    st = {}
    for d in net.devices:
        def col(tag):
            return [int(vals.get('%s_%s_%s%d' % (prefix, d.label.replace(' ', '_')[:6], tag, i), 0)) for i in range(4)]
        d.color = col('c')
        d.power = powers.get(d.label, 0)
        d.zones = [col('z%d' % i) for i in range(len(d.zones))]
        d.cells = [col('m%d' % i) for i in range(len(d.cells))]
        st[d.label] = {'color': list(d.color), 'power': d.power, 'zones': [list(z) for z in d.zones],
                       'cells': [list(c) for c in d.cells], 'kind': d.kind}
    return st


def capture_and_replay(specs, set_capture, set_other):
    """Returns (captured_state, final_devices, text, compile_errors, aborted)."""
    net = world.configure(specs)
    captured = set_capture(net)
    sent = {}

    def hook(sym, spec):
        sid = len(sent) + 1
        sent[sid] = sym
        return str(SENT_BASE + sid)
    symx.FORMAT_HOOK[0] = hook
    try:
        text = snapshot_mod.ScriptSnapshot().generate(None).text
    except Exception as ex:
        return captured, None, '', 'capturing the snapshot raised %s: %s' % (type(ex).__name__, ex), None
    finally:
        symx.FORMAT_HOOK[0] = None
    # later, against the same lights in another state
    net2 = world.configure(specs)
    set_other(net2)
    p = Parser()
    if not p.parse(text):
        return captured, None, text, p.get_errors(), None
    prog = p.get_program()
    for inst in prog:
        for attr in ('param0', 'param1'):
            v = getattr(inst, attr)
            if isinstance(v, int) and not isinstance(v, bool) and v >= SENT_BASE and (v - SENT_BASE) in sent:
                setattr(inst, attr, sent[v - SENT_BASE])
    m = Machine()
    m.reset()
    scripth._instrument(m, 6000)
    m.run(prog)
    return captured, net2, text, None, net2.aborted


def state_constraints(captured, net2):
    cons = []
    for d in net2.devices:
        cap = captured[d.label]
        if d.kind == 'plain':
            for i in range(4):
                cons.append(('%s colour[%d]' % (d.label, i), symx.eq(d.color[i], cap['color'][i])))
            cons.append(('%s power' % d.label, symx.eq(65535 if d.power else 0, 65535 if cap['power'] else 0)))
        elif d.kind == 'multizone':
            for zi, z in enumerate(cap['zones']):
                for i in range(4):
                    cons.append(('%s zone %d[%d]' % (d.label, zi, i), symx.eq(d.zones[zi][i], z[i])))
        else:
            if len(d.cells) != len(cap['cells']) or any(c is None for c in d.cells):
                cons.append(('%s matrix shape' % d.label, z3.BoolVal(False)))
                continue
            for ci, c in enumerate(cap['cells']):
                for i in range(4):
                    cons.append(('%s cell %d[%d]' % (d.label, ci, i), symx.eq(d.cells[ci][i], c[i])))
    return cons


def worker(args):
    pop, specs = args['pop'], args['specs']
    res = report.WorkResult('snapshot[%s]' % pop)
    world.start_function_trace()
    res.sites.add('roundtrip')

    def harness(ctx):
        powers = {}

        def cap(net):
            st = sym_state(ctx, net, 'cap')
            for k, v in st.items():
                powers[k] = v['power']
            return st
        out = capture_and_replay(specs, cap, lambda net: sym_state(ctx, net, 'now'))
        return out, powers
    for ctx, out in symx.explore(harness, max_paths=args['max_paths'], timeout_ms=8000, stats=res.stats,
                                 deadline=time.time() + args['budget_s']):
        if isinstance(out, symx.Abort):
            res.out_of_bound += 1
            continue
        (captured, net2, text, errors, aborted), powers = out
        res.nontrivial += 1
        if errors is not None:
            what, cons = (errors if errors.startswith('capturing') else 'snapshot script does not compile: %s' % errors.strip()), None
        elif aborted:
            what, cons = 'replay aborted: %s' % aborted, None
        else:
            what, cons = None, state_constraints(captured, net2)
        verdict, model = ctx.prove(False if what else z3.And(*[c for _, c in cons]))
        if verdict == 'unsat':
            res.reached.add('roundtrip')
            continue
        if verdict == 'unknown':
            res.inconclusive.append(res.label)
            continue
        res.reached.add('roundtrip')
        if what is None:
            for d, c in cons:
                if not z3.is_true(model.eval(c, model_completion=True)):
                    what = 'after replay, %s differs from the captured state' % d
                    break
        vals = ctx.model_values(model)
        msg, ctext = replay_concrete(specs, vals, powers)
        res.violation('%s|%s' % (res.label, scripth._sig_of(what)), '%s\n  replay: %s\n  snapshot script:\n%s' % (what, msg, ctext),
                      inputs={'specs': specs, 'values': vals, 'powers': powers}, replayed=msg is not None)
    if not symx.explore.last_exhaustive:
        res.exhaustive = False
    res.sample({'population': pop, 'specs': specs})
    res.functions = world.functions_seen()
    return res


def replay_concrete(specs, vals, powers):
    saved = symx.Ctx.cur
    symx.Ctx.cur = None
    world.uninstall_real_mode()
    try:
        captured, net2, text, errors, aborted = capture_and_replay(
            specs, lambda net: conc_state(net, vals, 'cap', powers),
            lambda net: conc_state(net, vals, 'now', {k: 0 if v else 65535 for k, v in powers.items()}))
        if errors is not None:
            return (errors if errors.startswith('capturing') else 'does not compile: %s' % errors.strip()), text
        if aborted:
            return 'aborted: %s' % aborted, text
        for d, c in state_constraints(captured, net2):
            if not z3.is_true(z3.simplify(c)):
                return '%s differs' % d, text
        return None, text
    finally:
        world.install_real_mode()
        symx.Ctx.cur = saved


def names_worker(args):
    """Light names over the whole alphabet the property quantifies over (every ASCII character except the double quote
    and line breaks, alone, embedded and leading; plus solver witnesses of the lexer's string language): capture, compile,
    replay on concrete device states of all three device kinds."""
    import random as _r
    res = report.WorkResult('names [%s]' % args['label'])
    world.start_function_trace()
    res.sites.add('names')
    saved = symx.Ctx.cur
    symx.Ctx.cur = None
    world.uninstall_real_mode()
    try:
        for name in args['names']:
            rng = _r.Random(len(name) * 131 + ord(name[0]))
            specs = ((name, 'G1', 'L1', 'plain'), (name + ' z', 'G1', 'L1', 'multizone', 2), ('m ' + name, 'G2', 'L1', 'matrix', 0, 1, 2))

            def state(net, flip):
                st = {}
                for d in net.devices:
                    col = lambda: [rng.randrange(65536) for _ in range(4)]
                    d.color = col()
                    d.power = 65535 if (len(st) + flip) % 2 else 0
                    d.zones = [col() for _ in d.zones]
                    d.cells = [col() for _ in d.cells]
                    st[d.label] = {'color': list(d.color), 'power': d.power, 'zones': [list(z) for z in d.zones],
                                   'cells': [list(c) for c in d.cells], 'kind': d.kind}
                return st
            res.nontrivial += 1
            captured, net2, text, errors, aborted = capture_and_replay(specs, lambda net: state(net, 0), lambda net: state(net, 1))
            res.reached.add('names')
            problem = None
            if errors is not None:
                problem = errors if errors.startswith('capturing') else 'snapshot script does not compile: %s' % errors.strip()
            elif aborted:
                problem = 'replay aborted: %s' % aborted
            else:
                for d, c in state_constraints(captured, net2):
                    if not z3.is_true(z3.simplify(c)):
                        problem = 'after replay, %s differs from the captured state' % d
                        break
            if problem:
                kind = 'name-ending-in-backslash' if name.endswith(chr(92)) else 'name'
                res.violation('names|%s|%s' % (kind, scripth._sig_of(problem)[:40]), '%s\n  light name %r\n  snapshot script:\n%s' % (problem, name, text),
                              inputs={'name': name}, replayed=True)
    finally:
        world.install_real_mode()
        symx.Ctx.cur = saved
    res.sample({'names': args['names'][:12]})
    res.functions = world.functions_seen()
    return res


def name_pool(n_witnesses):
    from bardolph.parser.lex import Lex
    from vlib import rx2z3
    pool = []
    for code in range(1, 127):
        c = chr(code)
        if c in '"\n\r':
            continue
        pool += ['x%sy' % c, c, '%sq' % c, 'q%s' % c]
    # a backslash in front of every character: nothing in a name is an escape sequence
    for code in range(33, 127):
        if chr(code) != '"':
            pool.append('H%s%sx' % (chr(92), chr(code)))
    s = z3.String('n')
    noq = z3.InRe(s, z3.Star(z3.Intersect(rx2z3.ASCII, z3.Complement(z3.Union(z3.Re('"'), z3.Re('\n'), z3.Re('\r'))))))
    for sp in ('{', '}', '%', chr(92), '#', "'", ' ', 'end', '[', ':'):
        ws, _ = rx2z3.witnesses(z3.And(noq, z3.Length(s) <= 6, z3.Length(s) >= 2, z3.Contains(s, z3.StringVal(sp))), s, n_witnesses)
        pool += [rx2z3.decode(w) for w in ws]
    # names beginning or ending with blanks are names like any other; a name ending in a backslash runs into the known
    # lexer finding of C16 only when another quote follows on the line, which the snapshot never produces
    pool += [' lead', 'trail ', '  both  ', chr(9) + 'tab', ' ']
    return [n for n in dict.fromkeys(pool) if n]


def web_capture_worker(args):
    """The web Capture button (WebApp.snapshot) writes the script to a file; captures of different populations, one
    after the other into the same directory: after each, the file holds exactly the script of that capture."""
    import os
    import tempfile
    import shutil
    res = report.WorkResult('web capture, repeated')
    world.start_function_trace()
    res.sites.add('web-capture')
    from checks.c20 import install_flask_stub
    install_flask_stub()
    import web.web_app as web_app_mod
    tmp = tempfile.mkdtemp(prefix='c18-')
    saved = symx.Ctx.cur
    symx.Ctx.cur = None
    world.uninstall_real_mode()
    try:
        order = [POPS['mixed'], POPS['plain1'], POPS['zone3'], POPS['none'], POPS['matrix2x2'], POPS['plain2']]
        for specs in order:
            res.nontrivial += 1
            net = world.configure(specs, extra_settings={'script_path': tmp, 'manifest_file_name': None})
            for i, d in enumerate(net.devices):
                d.color = [1000 + i, 2000 + i, 3000 + i, 2500 + i]
                d.power = 65535 if i % 2 else 0
                d.zones = [[10 + z, 20 + z, 30 + z, 3000] for z in range(len(d.zones))]
                d.cells = [[100 + z, 200 + z, 300 + z, 3500] for z in range(len(d.cells))]
            app = web_app_mod.WebApp()
            try:
                app.snapshot()
            except Exception as ex:
                res.violation('web-capture|raises', 'WebApp.snapshot() raises %s: %s' % (type(ex).__name__, ex), inputs={'specs': specs}, replayed=True)
                continue
            res.reached.add('web-capture')
            want = snapshot_mod.ScriptSnapshot().generate(None).text
            got = open(os.path.join(tmp, '__snapshot__.ls')).read()
            if got != want:
                res.violation('web-capture|file differs', 'after a capture the file holds %d characters, the captured script has %d; the file ends with %r'
                              % (len(got), len(want), got[-60:]), inputs={'specs': specs}, replayed=True)
            p = Parser()
            if not p.parse(got):
                res.violation('web-capture|does not compile', 'the captured file does not compile: %s' % p.get_errors().strip(), inputs={'specs': specs}, replayed=True)
    finally:
        shutil.rmtree(tmp, ignore_errors=True)
        world.install_real_mode()
        symx.Ctx.cur = saved
    res.functions = world.functions_seen()
    return res


def dispatch(args):
    if 'web' in args:
        return web_capture_worker(args)
    return names_worker(args) if 'names' in args else worker(args)


def run(tier, seed):
    t0 = time.time()
    pops = dict(POPS)
    if tier == 'thorough':
        pops.update(THOROUGH_POPS)
    items = [{'pop': k, 'specs': v, 'max_paths': 2000, 'budget_s': 50 if tier == 'quick' else 600} for k, v in pops.items()]
    names = name_pool(2 if tier == 'quick' else 12)
    for i in range(0, len(names), 40):
        items.append({'names': names[i:i + 40], 'label': str(i // 40)})
    items.append({'web': True})
    results, skipped = report.run_pool(dispatch, items, budget_s=common.tier_budget(tier, 60, 900))
    return report.finish(
        PROP, tier, seed, 'exploration', results, skipped,
        rule='work item = one population (plain / multizone / matrix mixes, incl. names with spaces, quotes-free punctuation and keywords); '
             'every raw component of every light, zone and cell at capture time and at replay time is a symbolic integer 0..65535, power a '
             'choice; the real ScriptSnapshot text is compiled by the real parser and run on the real VM, and z3 shows the final device '
             'state equals the captured one component-wise; plus, on concrete states, light names over every ASCII character except quote and line breaks (alone, embedded, leading) '
             'and solver witnesses of the lexer\'s string language, on all three device kinds',
        assumptions=common.SCRIPT_ASSUMPTIONS[:3] + [
            'symbolic numbers are carried through the generated script text as sentinel literals (format hook) and re-attached in the compiled program',
            'device states are integers (what the protocol carries)'],
        bounds={'populations': sorted(pops), 'max_lights': 4, 'matrix_up_to': '3x3 quick / 6x5 thorough', 'zones_up_to': 8},
        t0=t0, technique='bounded symbolic execution of snapshot generation + real compiler + real VM (proxy objects, z3): round trip on symbolic device states')


def replay(v):
    print(v['message'])
    return 0
