"""C20 -- the web front end runs only the manifest's scripts, escaped, without duplicates."""
import html
import json
import os
import random
import shutil
import sys
import tempfile
import time
import types

from vlib import report, symx, world
from checks import common

PROP = 'C20'

FILES = ['a.ls', 'b-c_d.ls', 'x&y<z>.ls', 'no_suffix', 'e.ls.ls', 'up/../e.ls', "q'\"t.ls"]
PATHS = [None, 'p', 'a', 'q&"r<', 'off', 'stop-all', 'b c', 'night.ls', '.ls', "kid's"]
TITLES = [None, 'T <b>&amp;', 'Plain']
COLORS = ['red', '"><script>x</script>', "rgb(1, 2, 3)", "a&b"]


class Rendered:
    def __init__(self, template, ctx):
        self.template, self.ctx = template, ctx


def install_flask_stub():
    m = types.ModuleType('flask')

    class Blueprint:
        def __init__(self, *a, **k): pass
        def route(self, *a, **k):
            return lambda f: f

    class Request:
        class headers:
            # what the client sent: a browser, a phone, a TV, or no User-Agent header at all (a script fetching a URL)
            agent = 'Mozilla/5.0 (X11; Linux)'

            @staticmethod
            def get(name, default=None):
                a = Request.headers.agent
                return default if a is None else a
    m.Blueprint = Blueprint
    m.request = Request
    m.render_template = lambda template, **ctx: Rendered(template, ctx)
    sys.modules['flask'] = m


class ManualThread:
    """threading.Thread stand-in for job_control: the harness decides when a job body runs."""
    pending = []

    def __init__(self, target=None, args=(), **kw):
        self.target, self.args = target, args
        self.alive = False

    def start(self):
        self.alive = True
        ManualThread.pending.append(self)

    def is_alive(self):
        return self.alive

    def run_now(self):
        try:
            self.target(*self.args)
        finally:
            self.alive = False


class StubJob:
    """Stands in for ScriptJob: records which file it was built from and what happens to it."""
    log = []

    def __init__(self, fname):
        self.fname = fname
        self.stops = 0
        self.executed = 0

    @staticmethod
    def from_file(fname):
        j = StubJob(fname)
        StubJob.log.append(j)
        return j

    def execute(self):
        self.executed += 1

    def request_stop(self):
        self.stops += 1


def expected_path(entry):
    p = entry.get('path', '')
    if not p:
        p = entry['file_name']
        if p.endswith('.ls'):
            p = p[:-3]
    return p


def expected_title(entry):
    t = entry.get('title', '')
    if not t:
        t = expected_path(entry).replace('_', ' ').replace('-', ' ').title()
    return t


def worker(args):
    res = report.WorkResult('web first=%r/%r bg=%s' % (args['file'], args['path'], args['bg0']))
    world.start_function_trace()
    res.sites.update(['routing', 'escaping', 'derivation', 'stops', 'status-capture'])
    install_flask_stub()
    import threading as real_threading
    import bardolph.lib.job_control as jc_mod
    import web.web_app as web_app_mod
    import web.front_end as fe_mod
    from web import i_web
    from bardolph.lib import injection
    seed_box = [args['seed']]
    tmp = tempfile.mkdtemp(prefix='c20-')
    cwd = os.getcwd()
    problems_seen = {}

    def pick(ctx, options, name):
        n = len(options)
        perm = random.Random(seed_box[0] * 7919 + len(ctx.trail) * 31 + n).sample(range(n), n)
        return options[perm[ctx.choose(n, name)]]

    def harness(ctx):
        # ---- manifest (choice variables) ----
        entries = []
        directed = args.get('directed', False)
        n_entries = 2 if directed else 1 + ctx.choose(args['max_entries'], 'entries')
        for i in range(n_entries):
            e = {'file_name': args['file'] if i == 0 else pick(ctx, FILES, 'file'),
                 'background': pick(ctx, COLORS, 'background'), 'color': pick(ctx, COLORS, 'color')}
            p = args['path'] if i == 0 else pick(ctx, PATHS, 'path')
            if p is not None:
                e['path'] = p
            t = pick(ctx, TITLES, 'title')
            if t is not None:
                e['title'] = t
            if (args['bg0'] if i == 0 else ((not args['bg0'] or args.get('both_bg', False)) if directed else ctx.choose(2, 'background-job') == 1)):
                e['run_background'] = True
            entries.append(e)
        by_path = {}
        for e in entries:
            by_path[expected_path(e)] = e            # later entries override, as a dict does
        os.makedirs(os.path.join(tmp, 'web'), exist_ok=True)
        with open(os.path.join(tmp, 'web', 'manifest.json'), 'w') as f:
            json.dump(entries, f)
        os.chdir(tmp)
        problems = []
        try:
            world.configure((('A', 'G1', 'L1', 'plain'), ('A z', 'G1', 'L1', 'multizone', 2), ('m A', 'G2', 'L1', 'matrix', 0, 1, 2)), extra_settings={'script_path': 'scripts', 'manifest_file_name': 'manifest.json'})
            os.makedirs(os.path.join(tmp, 'scripts'), exist_ok=True)
            ManualThread.pending = []
            StubJob.log = []
            jc_mod.threading = types.SimpleNamespace(Thread=ManualThread, RLock=real_threading.RLock)
            web_app_mod.ScriptJob = StubJob
            try:
                app = web_app_mod.WebApp()
            except Exception as ex:
                return entries, [], ['WebApp() raises %s: %s' % (type(ex).__name__, ex)]
            injection.bind_instance(app).to(i_web.WebApp)
            fe = fe_mod.FrontEnd()
            jobs = app._jobs
            listed = list(by_path)
            reqs = []

            def check_page(page, what):
                if not isinstance(page, Rendered):
                    problems.append('%s returned %r instead of a page' % (what, page))
                    return
                scripts = list(page.ctx.get('scripts') or [])
                if page.ctx.get('script') is not None:
                    scripts.append(page.ctx['script'])
                for sc in scripts:
                    raw = None
                    for p, e in by_path.items():
                        if html.escape(p) == sc.path:
                            raw = e
                    if raw is None:
                        problems.append('%s: page shows a script with path %r that the manifest does not list' % (what, sc.path))
                        continue
                    for attr, orig in (('file_name', raw['file_name']), ('path', expected_path(raw)), ('title', expected_title(raw)),
                                       ('color', raw['color']), ('background', raw['background'])):
                        got = getattr(sc, attr)
                        if got != html.escape(orig):
                            problems.append('%s: %s handed to the page as %r, expected %r (escaped once)' % (what, attr, got, html.escape(orig)))

            for step in range(args['requests']):
                import flask as _flask
                _flask.request.headers.agent = pick(ctx, ['Mozilla/5.0 (X11; Linux)', 'Mozilla/5.0 (Linux; Android 13) Mobile', 'SmartTV', None], 'user-agent') \
                    if step == args['requests'] - 1 else 'Mozilla/5.0 (X11; Linux)'
                forced_path = None
                if directed and step < 2 and len(listed) == 2:
                    # a background script and a queued script both under way, then any request
                    kind, forced_path = 'run-listed', listed[step]
                else:
                    kind = pick(ctx, ['run-listed', 'run-listed', 'run-unlisted', 'stop-path', 'stop-current', 'stop-all', 'status', 'capture', 'index', 'complete'], 'request')
                before_jobs = len(StubJob.log)
                before_stops = {id(j): j.stops for j in StubJob.log}
                running_before = {p: jobs.is_running(html.escape(p)) or jobs.is_running(p) for p in listed}
                queued_before = list(jobs.get_queued())
                current_before = jobs.get_current()
                background_before = list(jobs.get_background())
                try:
                    if kind == 'complete':
                        if ManualThread.pending:
                            t = ManualThread.pending.pop(ctx.choose(len(ManualThread.pending), 'which-job'))
                            t.run_now()
                        reqs.append('job completes')
                        continue
                    if kind == 'run-listed':
                        p = forced_path if forced_path is not None else pick(ctx, listed, 'which-path')
                        reqs.append('GET /%s' % p)
                        page = fe.run_script(p)
                        e = by_path[p]
                        new = StubJob.log[before_jobs:]
                        def alive_background(path):
                            # ground truth: a job thread for this script that was started and has not finished its body
                            return any(getattr(getattr(t.target, '__self__', None), 'name', None) == html.escape(path)
                                       and t.target.__self__.job in StubJob.log[:before_jobs] for t in ManualThread.pending)
                        if running_before[p]:
                            if new:
                                problems.append('%s is reported running but was started again' % p)
                        elif new and e.get('run_background') and alive_background(p):
                            problems.append('a second run of the background script %r was started while its first run is still executing' % p)
                        else:
                            if len(new) != 1:
                                problems.append('request for listed path %r started %d jobs' % (p, len(new)))
                            else:
                                want = os.path.join('scripts', e['file_name'])
                                if new[0].fname != want:
                                    problems.append('request for path %r loads %r, the manifest lists %r' % (p, new[0].fname, want))
                                in_bg = any(a.job is new[0] for a in jobs.get_background())
                                if in_bg != bool(e.get('run_background', False)):
                                    problems.append('path %r: run_background=%r but job %s' % (p, e.get('run_background', False), 'spawned in background' if in_bg else 'queued'))
                        check_page(page, 'GET /%s' % p)
                    elif kind == 'run-unlisted':
                        p = pick(ctx, [x for x in ['nope', '../scripts/a', 'a.ls', 'A', ''] if x not in by_path], 'unlisted')
                        reqs.append('GET /%s' % p)
                        page = fe.run_script(p)
                        if len(StubJob.log) != before_jobs:
                            problems.append('request for unlisted path %r started a job for %r' % (p, StubJob.log[-1].fname))
                        check_page(page, 'GET /%s' % p)
                    elif kind == 'stop-path':
                        p = pick(ctx, listed + ['nope'], 'which-path')
                        reqs.append('GET /stop/%s' % p)
                        page = fe.stop_script(p)
                        for j in StubJob.log:
                            dj = j.stops - before_stops.get(id(j), 0)
                            is_target = p in by_path and j.fname == os.path.join('scripts', by_path[p]['file_name']) and \
                                any(a.job is j for a in ([current_before] if current_before else []) + background_before)
                            if dj and not is_target:
                                problems.append('stop/%s stopped the job for %r' % (p, j.fname))
                        if p in by_path and running_before.get(p):
                            targets = [a.job for a in ([current_before] if current_before else []) + background_before
                                       if a.job.fname == os.path.join('scripts', by_path[p]['file_name'])]
                            if targets and not any(t.stops > before_stops.get(id(t), 0) for t in targets):
                                problems.append('stop/%s did not reach the running job' % p)
                        check_page(page, 'GET /stop/%s' % p)
                    elif kind in ('stop-current', 'stop-all'):
                        reqs.append('GET /' + kind)
                        try:
                            page = fe.stop_current() if kind == 'stop-current' else fe.stop_all()
                            check_page(page, 'GET /' + kind)
                        except AttributeError:
                            if kind in by_path:
                                raise                      # the page's own entry is listed: rendering must work
                        cur = current_before.job if current_before is not None else None
                        for j in StubJob.log:
                            dj = j.stops - before_stops.get(id(j), 0)
                            is_bg = any(a.job is j for a in background_before)
                            should = (j is cur) or (kind == 'stop-all' and is_bg)
                            if should and not dj and (j is not cur or current_before.is_running()):
                                problems.append('%s did not stop the job for %r' % (kind, j.fname))
                            if dj and not should:
                                problems.append('%s stopped the job for %r' % (kind, j.fname))
                        if kind == 'stop-all' and jobs.get_queued():
                            problems.append('stop-all left %d job(s) queued' % len(jobs.get_queued()))
                        if kind == 'stop-current' and [a.job for a in jobs.get_queued()] != [a.job for a in queued_before]:
                            problems.append('stop-current changed the queue')
                    elif kind == 'status':
                        reqs.append('GET /status')
                        page = fe.status()
                        check_page(page, 'GET /status')
                    elif kind == 'capture':
                        reqs.append('GET /capture')
                        page = fe.capture()
                        check_page(page, 'GET /capture')
                        if not os.path.exists(os.path.join(tmp, 'scripts', '__snapshot__.ls')):
                            problems.append('capture wrote no snapshot file')
                    else:
                        reqs.append('GET /')
                        check_page(fe.index(), 'GET /')
                except symx.Abort:
                    raise
                except Exception as ex:
                    problems.append('%s raises %s: %s' % (reqs[-1] if reqs else kind, type(ex).__name__, ex))
                if problems:
                    break
            # derivation of defaults (independent of requests)
            for p, e in by_path.items():
                sc = app.get_script_control(p)
                if sc is None:
                    problems.append('manifest path %r is not served' % p)
            return entries, reqs, problems
        finally:
            os.chdir(cwd)
    try:
        restarts = args['restarts']
        all_exhaustive = True
        for restart in range(restarts):
            # depth-first search varies the last decisions (requests) fastest; restarting with another seeded
            # ordering of every decision spreads the path budget over different manifests as well
            seed_box[0] = args['seed'] * 131 + restart
            for ctx, out in symx.explore(harness, max_paths=args['max_paths'] // restarts, timeout_ms=1000, stats=res.stats,
                                         deadline=time.time() + args['budget_s'] / restarts):
                if isinstance(out, symx.Abort):
                    res.out_of_bound += 1
                    continue
                entries, reqs, problems = out
                res.nontrivial += 1
                res.reached.update(['routing', 'escaping', 'derivation', 'stops', 'status-capture'])
                if problems:
                    key = sig_of(problems[0])
                    if key not in problems_seen:
                        problems_seen[key] = (entries, reqs, problems[0])
            all_exhaustive = all_exhaustive and symx.explore.last_exhaustive
        symx.explore.last_exhaustive = all_exhaustive
    finally:
        shutil.rmtree(tmp, ignore_errors=True)
    for key, (entries, reqs, msg) in problems_seen.items():
        res.violation('web|%s' % key, '%s\n  manifest: %s\n  requests: %s' % (msg, json.dumps(entries), reqs), inputs={'manifest': entries, 'requests': reqs}, replayed=True)
    if not symx.explore.last_exhaustive:
        res.exhaustive = False
    res.sample({'first_entry': {'file_name': args['file'], 'path': args['path']}, 'requests_per_history': args['requests']})
    res.functions = world.functions_seen()
    return res


def sig_of(msg):
    import re
    m = re.sub(r"'[^']*'|\"[^\"]*\"", 'S', msg)
    m = re.sub(r'\d+', 'N', m)
    return m[:70]


def run(tier, seed):
    t0 = time.time()
    q = tier == 'quick'
    items = [{'file': f, 'path': p, 'bg0': bg, 'seed': seed, 'max_entries': 2 if q else 3, 'requests': 4 if q else 5, 'restarts': 8 if q else 40,
              'max_paths': 1600 if q else 200000, 'budget_s': 9 if q else 300} for f in FILES for p in PATHS for bg in (False, True)]
    # directed: a background script and a queued script both under way, then every kind of request
    items += [{'file': f, 'path': p, 'bg0': bg, 'directed': True, 'seed': seed, 'max_entries': 2, 'requests': 4 if q else 5, 'restarts': 4 if q else 20,
               'max_paths': 1200 if q else 100000, 'budget_s': 10 if q else 200} for f in FILES[:3] for p in ('p', 'q&"r<', None) for bg in (False, True)]
    items += [{'file': f, 'path': p, 'bg0': True, 'both_bg': True, 'directed': True, 'seed': seed, 'max_entries': 2, 'requests': 4 if q else 5, 'restarts': 4 if q else 20,
               'max_paths': 1200 if q else 100000, 'budget_s': 10 if q else 200} for f in FILES[:2] for p in ('p', 'q&"r<')]
    # the directed histories first: when the machine is busy the quick tier's budget cuts from the end of the list
    items.sort(key=lambda it: 0 if it.get('directed') else 1)
    results, skipped = report.run_pool(worker, items, budget_s=common.tier_budget(tier, 70, 900))
    return report.finish(
        PROP, tier, seed, 'exploration', results, skipped,
        rule='manifest and request history are choice variables explored depth-first in seeded-shuffled order: 1..2 (quick) / 3 (thorough) entries with file name, optional '
             'path, optional title, colours (pools with HTML metacharacters, path separators, .ls variants, duplicates) and background flag; then up to 4 (5) requests among '
             'listed path, unlisted path, stop/<path>, stop-current, stop-all, status, capture, index, interleaved with job completions. Per history: jobs are created only for '
             'listed paths, from the listed file, queued or spawned as marked, never twice while reported running; every manifest string in a page context equals '
             'html.escape(original) once; default path/title derivation; stop routes reach exactly their targets; status and capture render',
        assumptions=['flask is replaced by a recording stub (Blueprint, request, render_template); Jinja rendering and real routing are outside',
                     'ScriptJob is replaced by a recording job (file name, execute, request_stop) and job threads by manually completed threads',
                     'stop-current/stop-all/off pages may fail to render when the manifest has no entry of that path (the action itself is still checked)'],
        bounds={'entries': 2 if q else 3, 'requests': 4 if q else 5, 'first_entry_variants': len(items)},
        t0=t0, technique='bounded exploration of manifests and request histories as choice variables (symx, depth-first, seeded order) through the real WebApp/FrontEnd/JobControl code')


def replay(v):
    print(v['message'])
    return 0
