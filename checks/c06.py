"""C06 -- the compiler always ends in accept or a line-numbered rejection, never a crash."""
import re
import time
import traceback

import bardolph.parser.parse as parse_mod
from bardolph.controller.script_job import ScriptJob
from bardolph.parser.lex import Lex
from bardolph.parser.parse import Parser
from bardolph.parser.token import Token, TokenTypes
from bardolph.vm.machine import Machine

from vlib import report, scripth, symx, world
from checks import common

PROP = 'C06'
PREAMBLE = 'define m 5 define lt "A" assign v 1 define f with a return a define g on all '
KEYWORDS = ['all', 'and', 'as', 'assign', 'at', 'begin', 'break', 'breakpoint', 'column', 'cycle', 'default', 'define',
            'else', 'end', 'from', 'get', 'group', 'if', 'in', 'location', 'logical', 'not', 'off', 'on', 'or',
            'print', 'printf', 'println', 'pause', 'raw', 'row', 'repeat', 'return', 'rgb', 'set', 'stage', 'to',
            'units', 'while', 'with', 'wait', 'zone']
REGS = ['hue', 'time', 'duration', 'default']
OTHER = ['v', 'f', 'g', 'm', 'lt', 'u', '1', '2.5', '"A"', '"{} {v}"', '1:00', '*:3*', '<', '==', '{', '}', '[', ']', '(', ')',
         '+', '-', '*', '/', '^', '%', ':', '@', '#x', 'number', 'eof', 'error', 'unknown', 'mark', 'name', 'null',
         'literal_string', 'time_pattern', 'register', 'compare', 'syntax_error', 'If', 'H', '5x', '"unterminated']
WORDS = KEYWORDS + REGS + OTHER


def alphabet():
    """One representative token per word, produced by the real lexer."""
    out = []
    for w in WORDS:
        toks = list(Lex(w).tokens())[:-1]          # all but the lexer's own terminator
        out.append((w, toks))
    return out


# Internal faults = malformed code or VM state (the property's examples: unknown op-code, missing routine,
# stack underflow).  Type confusion between script values (a string or a time pattern where a number is
# needed) is the script's own run-time error, like division by zero, and is not counted.
INTERNAL = re.compile(r"(KeyError|OpCode\.|<Operand\.|<Register\.|has no attribute 'get_address'|underflow|empty deque|"
                      r"'NoneType' and 'int'|'NoneType' object|takes \d+ positional|missing \d+ required|index out of range|"
                      r"object has no attribute)")
SCRIPT_ERRORS = re.compile(r"(division by zero|float division|modulo by zero|'str' and|and 'str'|'TimePattern'|instances of 'str'|"
                           r"can't multiply sequence|must be str|not 'str'|could not convert|Unknown format code|format spec|"
                           r"Replacement index|tuple index|Invalid format|'bool' and 'NoneType'|not supported between instances of 'NoneType')")


class Lazy(Lex):
    """Real lexer for the preamble, then tokens drawn lazily from the alphabet: the
    parse forks only when the parser actually looks at the next token."""
    alpha = None
    n = 0
    first = None
    second = None

    def tokens(self):
        for t in Lex.tokens(self):
            if t.is_a(TokenTypes.EOF):
                break
            yield t
        ctx = symx.Ctx.cur
        line = 2
        for i in range(Lazy.n):
            if i == 0 and Lazy.first is not None:
                k = Lazy.first
            elif i == 1 and Lazy.second is not None:
                k = Lazy.second
            else:
                k = ctx.choose(len(Lazy.alpha), 'tok%d' % i)
            Lazy.words.append(Lazy.alpha[k][0])
            for t in Lazy.alpha[k][1]:
                yield Token(t.token_type, t.content, line)
            line += 1
        yield Token(TokenTypes.EOF)


def classify(words):
    """One compile (+ load + run) of preamble + words.  -> (category, detail) ; category None = fine."""
    text = PREAMBLE + '\n' + '\n'.join(words)
    net = world.configure()
    p = Parser()
    try:
        ok = p.parse(text)
    except Exception as ex:
        tb = traceback.extract_tb(ex.__traceback__)[-1]
        return 'compiler crash', '%s: %s at %s:%s' % (type(ex).__name__, ex, tb.filename.split('/')[-1], tb.name)
    errs = p.get_errors()
    if ok is not True and ok is not False:
        return 'compiler returned %r' % (ok,), 'neither accept nor reject'
    if not ok:
        if not re.search(r'Line \d+:', errs):
            return 'silent rejection', 'parse() returned False without a line-numbered message'
        return None, None
    # accepted: must be loadable and runnable without an internal fault, and not a truncation
    prog = p.get_program()
    try:
        m = Machine()
        m.reset()
        scripth._instrument(m, 300)
        m.run(prog)
    except symx.Abort:
        return None, None
    except Exception as ex:
        return 'vm crash', '%s: %s' % (type(ex).__name__, ex)
    if net.aborted and not SCRIPT_ERRORS.search(net.aborted) and INTERNAL.search(net.aborted):
        return 'accepted script hits an internal fault', re.sub(r'instruction \d+', 'instruction N', net.aborted)
    # truncation: an accepted text stays accepted, with the same program, when garbage is appended
    n0 = len(prog)
    p2 = Parser()
    try:
        if p2.parse(text + '\n) ) )') and len(p2.get_program()) == n0:
            return 'truncated program accepted', 'input after some point is ignored'
    except Exception:
        pass
    return None, None


def token_worker(args):
    first, n = args['first'], args['n']
    second = args.get('second')
    res = report.WorkResult('tokens first=%s%s n=%d' % (WORDS[first], '' if second is None else ' second=' + WORDS[second], n))
    world.start_function_trace()
    res.sites.add('compile')
    alpha = alphabet()
    Lazy.alpha, Lazy.n, Lazy.first, Lazy.second = alpha, n, first, second
    saved_lex = parse_mod.Lex
    parse_mod.Lex = Lazy
    seen = {}
    try:
        def harness(ctx):
            Lazy.words = []
            net = world.configure()
            p = Parser()
            try:
                ok = p.parse(PREAMBLE)
            except symx.Abort:
                raise
            except Exception as ex:
                tb = traceback.extract_tb(ex.__traceback__)[-1]
                return list(Lazy.words), ('compiler crash', '%s: %s at %s:%s' % (type(ex).__name__, ex, tb.filename.split('/')[-1], tb.name))
            errs = p.get_errors()
            if ok is not True and ok is not False:
                return list(Lazy.words), ('compiler returned %r' % (ok,), 'neither accept nor reject')
            if not ok:
                if not re.search(r'Line \d+:', errs):
                    return list(Lazy.words), ('silent rejection', 'parse() returned False without a line-numbered message')
                return list(Lazy.words), None
            if len(Lazy.words) < n:
                return list(Lazy.words), ('truncated program accepted', 'compiler accepted after reading %d of %d tokens' % (len(Lazy.words), n))
            prog = p.get_program()
            try:
                m = Machine()
                m.reset()
                scripth._instrument(m, 300)
                m.run(prog)
            except symx.Abort:
                return list(Lazy.words), None
            except Exception as ex:
                return list(Lazy.words), ('vm crash', '%s: %s' % (type(ex).__name__, ex))
            if net.aborted and not SCRIPT_ERRORS.search(net.aborted) and INTERNAL.search(net.aborted):
                return list(Lazy.words), ('accepted script hits an internal fault', re.sub(r'instruction \d+', 'instruction N', net.aborted))
            return list(Lazy.words), None
        for ctx, out in symx.explore(harness, max_paths=None, timeout_ms=1000, stats=res.stats, deadline=time.time() + args['budget_s']):
            if isinstance(out, symx.Abort):
                res.out_of_bound += 1
                continue
            res.nontrivial += 1
            res.reached.add('compile')
            words, bad = out
            if bad is None:
                continue
            key = (bad[0], re.sub(r'"[^"]*"', '"..."', bad[1])[:90])
            if key in seen:
                seen[key][1] += 1
                continue
            seen[key] = [words, 1]
    finally:
        parse_mod.Lex = saved_lex
    # replay each distinct failure through the real lexer from text
    for (cat, detail), (words, count) in seen.items():
        saved = symx.Ctx.cur
        symx.Ctx.cur = None
        try:
            rcat, rdetail = classify(words)
        finally:
            symx.Ctx.cur = saved
        text = ' '.join(words)
        res.violation('compile|%s|%s' % (cat, sig_detail(detail)), '%s: %s\n  input (after the preamble): %s\n  %d token sequences in this family\n  replay from text: %s %s'
                      % (cat, detail, text, count, rcat, rdetail), inputs={'preamble': PREAMBLE, 'text': text}, replayed=rcat is not None)
    if not symx.explore.last_exhaustive:
        res.exhaustive = False
    res.sample({'first_token': WORDS[first], 'tokens_after_preamble': n})
    res.functions = world.functions_seen()
    return res


def sig_detail(d):
    d = re.sub(r'"[^"]*"', 'S', d)
    d = re.sub(r"'[^']*'", 'S', d)
    d = re.sub(r'\d+', 'N', d)
    return d[:70]


RULES = [
    ('break outside a loop', 'break'), ('break outside a loop (in if)', 'if {v > 0} break'),
    ('break in routine outside loop', 'define r2 begin break end'),
    ('break in routine defined inside a loop', 'repeat 2 begin define r3 begin break end end'),
    ('break in routine defined inside a loop, in an if', 'repeat 2 begin define r3 begin if {v > 1} break end r3 end'),
    ('assign to a macro', 'assign m 6'), ('redefine a macro', 'define m 6'), ('redefine a routine', 'define f on all'),
    ('undefined variable', 'hue nosuch'), ('undefined name as light', 'set nosuch'), ('undefined routine', 'nosuch 1'),
    ('undefined in expression', 'hue {nosuch + 1}'), ('first assignment refers to itself', 'assign nosuch nosuch'),
    ('first assignment refers to itself in an expression', 'assign nosuch {nosuch + 1}'),
    ('undefined counter in loop', 'repeat 2 begin assign cnt {cnt + 1} end'), ('undefined local in routine', 'define r2 begin assign q {q * 2} end'),
    ('undefined as argument', 'f nosuch'), ('undefined in condition', 'if {nosuch > 1} on all'), ('undefined as count', 'repeat nosuch on all'), ('routine inside routine', 'define o begin define i on all end'),
    ('missing end', 'if {v > 0} begin on all'), ('missing end in routine', 'define o begin on all'),
    ('missing end in repeat', 'repeat 2 begin on all'), ('unbalanced brace', 'hue {1 + 2'), ('unbalanced brace 2', 'hue 1 + 2}'),
    ('unbalanced bracket', 'hue [f 1'), ('unbalanced parenthesis', 'hue {(1 + 2}'), ('unbalanced parenthesis 2', 'hue {1 + 2)}'),
    ('macro made from an undefined name', 'define q nosuch'), ('macro without a value', 'define q define r2 5'), ('macro made from an undefined name, then used', 'define q nosuch hue q'),
    ('routine redefines a macro', 'define m begin on all end'), ('macro redefines a routine', 'define f 5'), ('macro redefines a routine by a string', 'define g "x"'),
    ('loop variable named like a macro', 'repeat with m from 1 to 3 on all'), ('light variable named like a macro', 'repeat all as m on all'),
    ('parameter used outside its routine', 'define r2 with zz on all hue zz'), ('parameter used outside its routine, in an expression', 'define r2 with zz yy on all print {yy + 1}'),
    ('assign to a macro named like an earlier parameter', 'define r2 with m on all assign m 6'), ('local of a routine used outside it', 'define r2 begin assign qq 1 end print qq'),
    ('loop variable of a routine used outside it', 'define r2 begin repeat with ii from 1 to 2 on all end print ii'),
    ('hour 24', 'time at 24:00 on all'), ('hour 24 among alternatives', 'time at 6:00 or 24:05 on all'), ('hour 24 as a macro', 'define tp 24:15'),
    ('minute 60', 'time at 7:60 on all'),
    ('malformed time pattern', 'time at 12:5 on all'), ('malformed time pattern 2', 'time at 25:00 on all'),
    ('malformed time pattern 3', 'time at **:00 on all'), ('malformed time pattern in define', 'define tp 25:00'),
    ('malformed time pattern in assign', 'assign tp 12:60'), ('malformed time pattern as macro', 'define tp 3*:00 time at tp on all'), ('minus before time pattern', 'time at -1:00 on all'),
    ('minus before time pattern value', 'assign t -1:00'), ('stray end', 'on all end'), ('stray else', 'on all else off all'),
    ('missing operand', 'set'), ('missing value', 'hue'), ('string as number', 'hue "abc"'), ('zone on power', 'on "Z" zone 1'),
]


UNFINISHED = ['repeat 2 begin hue nosuch end', 'define r9 with a begin repeat while {a > 0} begin hue nosuch', 'set "M" begin hue nosuch end',
              'if {v > 0} begin repeat all as l begin hue nosuch', 'define r9 begin hue nosuch']

ODD_FORMS = [
    # definitions inside conditionals and loops: the code around them runs as written whichever way the condition goes
    'if {v > 1} begin define r5 begin on all end end assign y {1 + 2} print y',
    'if {v > 1} begin on all end else begin define r5 begin on all end repeat 2 begin off all end end assign y {v * 2}',
    'repeat with i from 1 to 2 begin define r5 with y begin print y end r5 i end assign y {i + 1}',
    'if {v > 0} begin define r5 begin on all end end else begin define r6 begin off all end end assign y {1 + 2} r5',
    'repeat while {v < 3} begin if {v > 1} begin define r5 begin on all end end assign v {v + 1} end print {v + 1}',
    'on "A" row 1', 'off "Q" column 2', 'on "M" row 0 1 column 2', 'on default', 'off default', 'set default', 'set "M" begin on "A" end',
    'set "M" begin off "A" stage row 1 end', 'set "M" begin get "A" stage row 1 end', 'set "M" begin units raw stage row 1 end', 'set "M" begin end',
    'printf "{1}" 5', 'printf "{0} {0}" 1 2', 'hue 12:30 set all', 'repeat with i in "a" print i', 'get "Z" zone 1', 'set group "G1" zone 1 2',
    'define k begin end assign x [k] print {x + 1}', 'f not 1', 'print not v', 'set "A" and', 'on "A" and "B" and group "G1" and location "L1"',
    'repeat in "A" and "A" as l begin on l end', 'repeat group as grp begin on group grp end', 'set {lt}', 'assign z {lt} set z', 'wait', 'time at 1:00 wait',
]


def rule_worker(args):
    res = report.WorkResult('documented rule breakers')
    world.start_function_trace()
    res.sites.add('rules')
    for name, snippet in RULES:
        for prefix, suffix in (('', ''), ('on all ', ''), ('', ' off all'), ('repeat 2 begin on all end ', ' wait')):
            if 'break' in name and prefix.startswith('repeat') and False:
                continue
            text = PREAMBLE + '\n' + prefix + snippet + suffix
            world.configure()
            res.nontrivial += 1
            res.reached.add('rules')
            p = Parser()
            try:
                ok = p.parse(text)
                errs = p.get_errors()
                if ok:
                    bad = 'accepted'
                elif not re.search(r'Line \d+:', errs):
                    bad = 'rejected without a line-numbered message'
                else:
                    bad = None
            except Exception as ex:
                bad = 'crashes the compiler: %s: %s' % (type(ex).__name__, ex)
            if bad is None:
                job = ScriptJob()
                job.load_string(text)
                if job.program:
                    bad = 'rejected, but the job still holds a program of %d instructions' % len(job.program)
            if bad is None:
                job = ScriptJob()
                job.load_string('off "A" on all')           # an accepted text first, then the rejected one
                job.load_string(text)
                if job.program:
                    bad = 'rejected after an accepted text: the job still holds a program of %d instructions' % len(job.program)
            if bad is None and prefix == '':
                # ... and after a text that was rejected in the middle of a loop, a routine, a matrix block or a conditional
                for first in UNFINISHED:
                    job = ScriptJob()
                    job.load_string(PREAMBLE + '\n' + first)
                    if job.program:
                        continue
                    job.load_string(text)
                    if job.program:
                        bad = 'accepted (program of %d instructions) by a job whose previous text, %r, had been rejected' % (len(job.program), first)
                        break
            if bad:
                res.violation('rules|%s|%s' % (name, sig_detail(bad)), 'rule breaker (%s) %s\n  script: %s' % (name, bad, prefix + snippet + suffix),
                              inputs={'text': text}, replayed=True)
                break
    # odd but well-formed command forms: accepted and executable, or rejected with a line -- never an internal fault of the VM
    for text in ODD_FORMS:
        res.nontrivial += 1
        world.configure()
        cat, detail = classify_text(PREAMBLE + '\n' + text)
        if cat is not None and cat != 'truncated program accepted':
            res.violation('odd-forms|%s|%s' % (cat, sig_detail(detail)), '%s: %s\n  script: %s' % (cat, detail, text), inputs={'text': text}, replayed=True)
    res.sample({'rules': [n for n, _ in RULES]})
    res.functions = world.functions_seen()
    return res


BASE_SCRIPTS = [
    'assign x 4 hue {1 + {2}} if not {x > 5} on all print {{x} * {2 + {x}}}',
    'hue 120 saturation 50 brightness 25 kelvin 2700 duration 1.5 set all',
    'define blue 240 hue blue set "A" and group "G1" on location "L1"',
    'assign x 5 if {x > 3 and x < 9} begin on all end else off all',
    'repeat 3 with h from 0 to 360 begin hue h set all end',
    'define r with p q begin brightness {p * q} set "A" return {p + 1} end assign y [r 2 3] r 1 y',
    'repeat all as lt with b cycle begin brightness b set lt if {b > 100} break end',
    'time at 8:00 or 1*:30 on all time 2 off "A"',
    'set "M" begin hue 10 stage row 0 1 column 1 stage row 2 end set "Z" zone 0 3',
    'units raw hue 30000 set "A" units rgb red 10 green 20 blue 30 set all',
    'printf "{} {hue} {:>5}" 1 2 println "x" print {1 + 2 * 3 ^ 2}',
    'repeat in "A" and group "G1" as l begin get l on l end repeat while {hue < 10} hue {hue + 1}',
    'define f with a begin if {a <= 0} return 0 return [f {a - 1}] end print [f 2]',
    # calls with something pending on the evaluation stack: as the right operand, inside light loops, nested in arguments
    'define g begin return 4 end assign y {10 - [g]} print {1 + [round 2.5]} print {[g] + 1} print {2 * [g] - [round {y / 3}]}',
    'define g with a begin return a end repeat all as lt begin assign y [g 2] on lt end repeat in "A" and "B" as l begin print [round 1.5] set l end',
    # compile-time definitions in the middle of open bodies
    'define lim 5 if {lim > 3} begin define k 7 print k end repeat 2 begin define w "a" print w if {lim < 9} break end print lim',
]


def mutation_worker(args):
    res = report.WorkResult('mutations of %r' % args['text'][:30])
    world.start_function_trace()
    res.sites.add('mutations')
    toks = args['text'].split()
    seen = set()

    def harness(ctx):
        kind = ctx.choose(5, 'mutation')
        i = ctx.choose(len(toks), 'position')
        t = list(toks)
        if kind == 0:
            del t[i]
        elif kind == 1:
            t.insert(i, t[i])
        elif kind == 2:
            if i + 1 < len(t):
                t[i], t[i + 1] = t[i + 1], t[i]
        elif kind == 3:
            t = t[:i]
        else:
            t[i] = ctx.pick(['end', 'begin', '{', '}', ']', '"', '-', 'define', '1:00', '%', 'and'], 'replacement')
        return ' '.join(t)
    for ctx, out in symx.explore(harness, max_paths=None, timeout_ms=1000, stats=res.stats):
        if isinstance(out, symx.Abort):
            continue
        res.nontrivial += 1
        res.reached.add('mutations')
        if out in seen:
            continue
        seen.add(out)
        saved = symx.Ctx.cur
        symx.Ctx.cur = None
        try:
            world.configure()
            cat, detail = classify_text(out)
        finally:
            symx.Ctx.cur = saved
        if cat is not None and cat != 'truncated program accepted':
            res.violation('compile|%s|%s' % (cat, sig_detail(detail)), '%s: %s\n  input: %s' % (cat, detail, out), inputs={'text': out}, replayed=True)
    res.sample({'base': args['text'], 'mutants': len(seen)})
    res.functions = world.functions_seen()
    return res


def classify_text(text):
    net = world.configure()
    p = Parser()
    try:
        ok = p.parse(text)
    except Exception as ex:
        tb = traceback.extract_tb(ex.__traceback__)[-1]
        return 'compiler crash', '%s: %s at %s:%s' % (type(ex).__name__, ex, tb.filename.split('/')[-1], tb.name)
    if not ok:
        if not re.search(r'Line \d+:', p.get_errors()):
            return 'silent rejection', 'parse() returned False without a line-numbered message'
        job = ScriptJob()
        job.load_string(text)
        if job.program:
            return 'rejected text leaves a runnable program', '%d instructions' % len(job.program)
        return None, None
    try:
        m = Machine()
        m.reset()
        scripth._instrument(m, 300)
        m.run(p.get_program())
    except symx.Abort:
        return None, None
    except Exception as ex:
        return 'vm crash', '%s: %s' % (type(ex).__name__, ex)
    if net.aborted and not SCRIPT_ERRORS.search(net.aborted) and INTERNAL.search(net.aborted):
        return 'accepted script hits an internal fault', re.sub(r'instruction \d+', 'instruction N', net.aborted)
    return None, None


def lexer_worker(args):
    """String level: the lexer never drops a non-blank character and never raises (rx2z3 + replay)."""
    import z3
    from vlib import rx2z3
    res = report.WorkResult('lexer totality')
    res.sites.add('lexer')
    tr = rx2z3.translate(Lex._DEFAULT_SPEC)
    s = z3.String('s')
    nonblank = z3.InRe(s, z3.Plus(z3.Intersect(rx2z3.ASCII, z3.Complement(z3.Union(*[z3.Re(c) for c in rx2z3.SPACE_CHARS])))))
    sol = z3.Solver()
    sol.set('timeout', 20000)
    sol.add(nonblank, z3.Length(s) <= 8, z3.Not(z3.InRe(s, tr.re)))
    r = str(sol.check())
    res.stats.queries += 1
    res.nontrivial += 1
    if r == 'unsat':
        res.stats.proved += 1
        res.reached.add('lexer')
    elif r == 'sat':
        w = rx2z3.decode(sol.model().eval(s, model_completion=True).as_string())
        got = ''.join(str(t) for t in Lex(w).tokens())
        res.violation('lexer|uncovered', 'no alternative of the token regex covers %r (tokens: %r)' % (w, got), inputs={'text': w}, replayed=True)
    else:
        res.inconclusive.append('lexer totality')
    # witnesses of odd strings go through the real lexer + compiler: must end in accept/reject
    wit, _ = rx2z3.witnesses(z3.And(nonblank, z3.Length(s) <= 6, z3.Length(s) >= 2,
                                    z3.Not(z3.InRe(s, z3.Star(z3.Union(z3.Range('a', 'z'), z3.Range('0', '9')))))), s, 40)
    for w in wit:
        w = rx2z3.decode(w)
        for text in (w, 'hue ' + w, 'set "' + w.replace('"', '') + '"', 'assign q ' + w, '{' + w):
            cat, detail = classify_text(text)
            res.nontrivial += 1
            if cat in ('compiler crash', 'silent rejection', 'vm crash'):
                res.violation('compile|%s|%s' % (cat, sig_detail(detail)), '%s: %s\n  input: %r' % (cat, detail, text), inputs={'text': text}, replayed=True)
    # the compiler *finishes*: long runs of one character after each kind of opening (catastrophic backtracking in a token
    # pattern shows as time growing exponentially with the length of the run); each compile runs in a child with a time limit
    pumps = ['"' + chr(92) * 60, '"' + 'a' * 60, '"' + (chr(92) + '"') * 30, '1' * 60 + ':', '*' * 60, '1' + '.' * 60, '{' * 60, '9' * 60 + 'x',
             '"' + ' ' * 60, '<' * 60, 'a' * 60 + '"', '#' + chr(92) * 60, '8:' + '0' * 60, ('"' + chr(92)) * 30]
    deep = ['hue ' + '{' * 3000 + '1', 'if 1 ' * 3000 + 'on all', 'hue ' + '(' * 3000, 'hue ' + '9' * 5000, 'hue 1.' + '9' * 5000, 'define f ' + 'f ' * 2000,
            'hue ' + '[' * 3000, 'repeat ' * 3000, 'hue ' + '- ' * 3000 + '1', 'hue {' + 'not ' * 3000 + '1}', 'hue {1' + ' + 1' * 3000 + '}', 'hue {2' + ' ^ 2' * 3000 + '}']
    for text in deep:
        res.nontrivial += 1
        kind, val = symx.run_in_child_timed(lambda: classify_text(text), 20)
        if kind == 'timeout':
            res.violation('compile|does not finish', 'the compiler did not finish within 20 s\n  input: %r...' % text[:60], inputs={'text': text[:200]}, replayed=True)
        elif kind == 'error':
            res.violation('compile|compiler crash|%s' % val.split(':')[0], 'compiler crash: %s\n  input: %r... (%d characters)' % (val[:200], text[:40], len(text)),
                          inputs={'text': text[:200], 'length': len(text)}, replayed=True)
        elif val[0] in ('compiler crash', 'silent rejection', 'vm crash'):
            res.violation('compile|%s|%s' % (val[0], sig_detail(val[1])), '%s: %s\n  input: %r... (%d characters)' % (val[0], val[1], text[:40], len(text)),
                          inputs={'text': text[:200], 'length': len(text)}, replayed=True)
    for pump in pumps:
        text = 'hue 120\nset ' + pump + '\non all'
        res.nontrivial += 1
        kind, val = symx.run_in_child_timed(lambda: classify_text(text), 10)
        if kind == 'timeout':
            res.violation('compile|does not finish', 'the compiler did not finish within 10 s\n  input: %r' % text, inputs={'text': text}, replayed=True)
        elif kind == 'ok' and val[0] in ('compiler crash', 'silent rejection', 'vm crash'):
            res.violation('compile|%s|%s' % (val[0], sig_detail(val[1])), '%s: %s\n  input: %r' % (val[0], val[1], text), inputs={'text': text}, replayed=True)
    res.sample({'lemma': 'every non-blank ASCII string up to length 8 is in L(_DEFAULT_SPEC), the last alternative of _TOKEN_SPEC', 'witness_texts': wit[:6]})
    return res


def dispatch(args):
    return {'rules': rule_worker, 'tokens': token_worker, 'mutations': mutation_worker, 'lexer': lexer_worker}[args['kind']](args)


def run(tier, seed):
    t0 = time.time()
    n = 3 if tier == 'quick' else 5
    import random
    rng = random.Random(seed)
    items = [{'kind': 'rules'}, {'kind': 'lexer'}]
    items += [{'kind': 'mutations', 'text': t} for t in BASE_SCRIPTS]
    items += [{'kind': 'tokens', 'first': i, 'n': n, 'budget_s': 40 if tier == 'quick' else 800} for i in range(len(WORDS))]
    if tier == 'quick':
        pairs = [(i, j) for i in range(len(WORDS)) for j in range(len(WORDS))]
        rng.shuffle(pairs)
        items += [{'kind': 'tokens', 'first': i, 'second': j, 'n': 4, 'budget_s': 20} for i, j in pairs[:1200]]
    results, skipped = report.run_pool(dispatch, items, budget_s=common.tier_budget(tier, 70, 1000))
    return report.finish(
        PROP, tier, seed, 'exploration', results, skipped,
        rule='inputs are token sequences: a fixed preamble (macro, string macro, variable, function, routine) followed by N tokens, each a choice variable over a '
             '%d-word alphabet (every keyword, registers, names, literals, time patterns, every operator/bracket, comment, garbage, and the lexer\'s internal '
             'token-class names); tokens are drawn lazily so one path covers all continuations after the point where the parser stops reading. Per path: no '
             'exception, accept or a rejection with a line-numbered message, no acceptance before all tokens were read, accepted programs load and run 300 steps '
             'without an internal fault. Plus %d documented rule breakers in 4 contexts each must be rejected and leave the job without a program' % (len(WORDS), len(RULES)),
        assumptions=['token texts are the representatives listed in checks/c06.py (one per token class/keyword); other spellings of the same class are covered by C16',
                     'run-time script errors (division by zero, a string/time pattern/value-less variable where a number is needed) are not internal faults; a run is cut after 300 VM steps'],
        bounds={'tokens_after_preamble': n, 'alphabet': len(WORDS), 'quick_extra': '1200 seeded (first, second) token pairs extended to 4 tokens',
                'mutation_bases': len(BASE_SCRIPTS)},
        t0=t0, technique='symbolic token stream (lazy choice variables, depth-first exhaustive) through the real parser, loader and VM')


def replay(v):
    print(v['message'])
    return 0
