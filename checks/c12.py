"""C12 -- device faults and wrong-type targets never abort a script or disturb others."""
import time

import z3

from bardolph.parser.parse import Parser
from bardolph.vm.machine import Machine

from vlib import report, scripth, symx, world, refsem as R
from checks import common

PROP = 'C12'
N = R.Num
SPECS = (('A', 'G1', 'L1', 'plain'), ('B', 'G1', 'L2', 'plain'), ('C', 'G2', 'L1', 'plain'),
         ('Z', 'G2', 'L2', 'multizone', 4), ('M', 'G3', 'L2', 'matrix', 0, 2, 2))


def L(name, **kw):
    return R.Operand('light', R.Str(name), **kw)


def pre(sid0=0):
    return [R.SetReg('hue', N(sid=sid0 + 1, kind='hue')), R.SetReg('saturation', N(sid=sid0 + 2, kind='pct')),
            R.SetReg('brightness', N(value=40)), R.SetReg('kelvin', N(value=2700)), R.SetReg('duration', N(sid=sid0 + 3, kind='dur'))]


SCRIPTS = {
    # name: (statements, faulty target label)
    'plain-sequence': (pre() + [R.Action('set', [L('A')]), R.Action('set', [L('B')]), R.Action('on', [L('A')]),
                                R.SetReg('hue', N(sid=9, kind='hue')), R.Action('set', [L('C')]), R.Action('off', [L('A')])], 'A'),
    'group-fanout': (pre() + [R.Action('set', [R.Operand('group', R.Str('G1'))]), R.Action('on', [R.Operand('location', R.Str('L1'))]),
                              R.Action('set', [L('C')]), R.Action('set', [L('A'), L('B')])], 'A'),
    'zone': (pre() + [R.Action('set', [L('Z', zone=(N(value=1), N(value=2)))]), R.Action('set', [L('A')]),
                      R.Action('set', [L('Z')]), R.Action('on', [L('B')])], 'Z'),
    'matrix': (pre() + [R.Action('set', [L('M', matrix=('inline', (N(value=0), None), None))]), R.Action('set', [L('A')]),
                        R.Action('set', [L('M', matrix=('block', [R.Stage((N(value=1), None), (N(value=0), N(value=1)))]))]),
                        R.Action('on', [L('M')]), R.Action('set', [L('B')])], 'M'),
    'broadcast-then-faulty-light': (pre() + [R.Action('set', 'all'), R.Action('set', [L('A')]), R.Action('on', 'all'), R.Action('off', [L('B')])], 'A'),
    'power-on-special': (pre() + [R.Action('on', [L('Z')]), R.Action('off', [L('M')]), R.Action('set', [L('A')]), R.Action('on', [R.Operand('group', R.Str('G2'))]),
                                  R.Action('set', [L('B'), L('Z', zone=(N(value=0), None)), L('C')])], 'Z'),
    'group-loop': (pre() + [R.Repeat('in', [R.Action('set', [R.Operand('light', R.Var('lt'))]), R.Action('on', [R.Operand('light', R.Var('lt'))])], lvar='lt',
                                     items=[('group', R.Str('G1')), ('light', R.Str('C'))]), R.Action('off', [L('B')])], 'A'),
    # the faulty light is asked for its colour: whatever it answers (or not), the script goes on and the
    # commands that do not depend on the answer reach the others unchanged
    'get-from-faulty': (pre() + [R.Action('on', [L('B')]), R.Get(R.Str('A')), R.Action('off', [L('C')]), R.Action('on', [L('B')]),
                                 R.Action('off', [R.Operand('group', R.Str('G2'))])], 'A'),
    'loop': (pre() + [R.Repeat('all', [R.Action('set', [R.Operand('light', R.Var('lt'))])], lvar='lt'), R.Action('on', [L('C')])], 'B'),
}
MISMATCH = [
    ('unknown-light', [R.Action('set', [L('Q')]), R.Action('on', [L('Q')])]),
    ('unknown-group', [R.Action('set', [R.Operand('group', R.Str('Nope'))]), R.Action('off', [R.Operand('group', R.Str('Nope'))])]),
    ('unknown-location', [R.Action('set', [R.Operand('location', R.Str('Nowhere'))]), R.Action('on', [R.Operand('location', R.Str('Nowhere'))])]),
    ('zone-on-plain', [R.Action('set', [L('A', zone=(N(value=1), N(value=2)))])]),
    ('zone-on-matrix', [R.Action('set', [L('M', zone=(N(value=0), None))])]),
    ('zone-on-unknown', [R.Action('set', [L('Q', zone=(N(value=0), None))])]),
    ('row-on-plain', [R.Action('set', [L('A', matrix=('inline', (N(value=1), None), None))])]),
    ('column-on-multizone', [R.Action('set', [L('Z', matrix=('inline', None, (N(value=0), N(value=1))))])]),
    ('block-on-plain', [R.Action('set', [L('A', matrix=('block', [R.Stage((N(value=0), None), None)]))])]),
    ('block-on-unknown', [R.Action('set', [L('Q', matrix=('block', [R.Stage((N(value=0), None), None)]))])]),
    # the same after a matrix command to a real matrix light (nothing of it may be left behind), and with indices no light has
    ('row-on-unknown-after-matrix', [R.Action('set', [L('M', matrix=('inline', (N(value=1), N(value=2)), None))]), R.Action('set', [L('Q', matrix=('inline', (N(value=7), None), None))])],
     [('tile', 'M')]),
    ('row-on-plain-after-matrix', [R.Action('set', [L('M', matrix=('inline', (N(value=0), None), None))]), R.Action('set', [L('A', matrix=('inline', (N(value=200), None), (N(value=100), N(value=120))))])],
     [('tile', 'M')]),
    ('block-on-unknown-after-matrix', [R.Action('set', [L('M', matrix=('inline', None, (N(value=0), None)))]),
                                      R.Action('set', [L('Q', matrix=('block', [R.Stage((N(value=9), N(value=12)), None), R.Stage(None, (N(value=40), None))]))])], [('tile', 'M')]),
    ('huge-row-on-plain', [R.Action('set', [L('A', matrix=('inline', (N(value=255), None), None))])]),
    ('huge-column-on-unknown', [R.Action('set', [L('Q', matrix=('inline', None, (N(value=1000), None)))])]),
    # loops over the members of a group or location nobody reported: no pass, whatever the loop is to spread over its passes
    ('loop-over-unknown-group', [R.Repeat('in', [R.Action('set', [R.Operand('light', R.Var('lt'))])], lvar='lt', items=[('group', R.Str('Nope'))])]),
    ('loop-over-unknown-group-cycle', [R.Repeat('in', [R.SetReg('hue', R.Var('h')), R.Action('set', [R.Operand('light', R.Var('lt'))])], lvar='lt',
                                               items=[('group', R.Str('Nope'))], dist=('cycle', 'h', None))]),
    ('loop-over-unknown-location-cycle-from', [R.Repeat('in', [R.SetReg('hue', R.Var('h')), R.Action('on', [R.Operand('light', R.Var('lt'))])], lvar='lt',
                                                       items=[('location', R.Str('Nowhere'))], dist=('cycle', 'h', N(value=90)))]),
    ('loop-over-unknown-group-from-to', [R.Repeat('in', [R.SetReg('brightness', R.Var('b')), R.Action('set', [R.Operand('light', R.Var('lt'))])], lvar='lt',
                                                 items=[('group', R.Str('Nope')), ('location', R.Str('Nowhere'))], dist=('from', 'b', N(value=10), N(value=90)))]),
    ('get-unknown', [R.Get(R.Str('Q'))]),
    ('get-multizone', [R.Get(R.Str('Z'))]),
]


def others_trace(trace, faulty):
    faulty = faulty if isinstance(faulty, (tuple, list, set)) else (faulty,)
    out = []
    for e in trace:
        if e[0] in ('color', 'power', 'zone', 'tile', 'get_color'):
            if e[1] not in faulty:
                out.append(e)
        elif e[0] in ('all_color', 'all_power'):
            if '<lan>' not in faulty:
                out.append(e)
        else:
            out.append(e)
    return out


def fault_worker(args):
    name = args['name']
    stmts, faulty = SCRIPTS[name]
    faulty = args.get('faulty', faulty)
    fset = faulty if isinstance(faulty, tuple) else (faulty,)
    case = scripth.Case(stmts, specs=SPECS, tag='fault-%s-%s' % (name, '+'.join(fset)))
    res = report.WorkResult(case.tag)
    world.start_function_trace()
    res.sites.add('containment')
    prog, slots = scripth.compile_case(case)

    def run(ctx, vals, plan):
        """plan: None (no faults) or chooser of fail/ok per attempt on the faulty target."""
        info = {'runs': [], 'max_consecutive': 0}
        streak = {}

        def configure_fault(net):
            def fault(label, op, seq):
                key = (label, op)
                if streak.get('last') != key:
                    streak.clear()
                streak['last'] = key
                if plan is None or label not in fset:
                    return False
                k = streak.get(key, 0)
                fail = plan(label, op, k)
                if fail:
                    streak[key] = k + 1
                    info['max_consecutive'] = max(info['max_consecutive'], k + 1)
                else:
                    streak.pop(key, None)
                return fail
            net.fault = fault
        orig = world.configure

        def cfg(specs=world.DEFAULT_SPECS, **kw):
            n = orig(specs, **kw)
            configure_fault(n)
            return n
        scripth.world.configure = cfg
        try:
            end = {}

            def post(net, m):
                end['pc'], end['len'] = m._reg.pc, len(m._program)
            net = scripth.run_vm(case, prog, slots, vals, post=post)
        finally:
            scripth.world.configure = orig
        return net, info, end

    def harness(ctx):
        vals = scripth.make_values(ctx, case)
        log = []

        def plan(label, op, k):
            if k >= 4:
                return False          # a 5th consecutive attempt would already be a violation
            f = ctx.choose(2, 'fail:%s:%s:%d' % (label, op, k)) == 1
            log.append((label, op, k, f))
            return f
        net_0, _, end_0 = run(ctx, vals, None)          # reference first: the process is still pristine
        net_f, info, end_f = run(ctx, vals, plan)
        return vals, net_f, info, end_f, net_0, log
    def on_path(ctx, out):
        if isinstance(out, symx.Abort):
            return {'oob': True}
        vals, net_f, info, end_f, net_0, log = out
        problems, cons = [], []
        if net_f.aborted:
            problems.append('script aborted: %s' % net_f.aborted)
        elif end_f.get('pc') != end_f.get('len'):
            problems.append('script stopped at instruction %s of %s' % (end_f.get('pc'), end_f.get('len')))
        if info['max_consecutive'] > 3:
            problems.append('a request was attempted more than 3 times (%d consecutive failures answered by another try)' % info['max_consecutive'])
        if not problems:
            a, b = others_trace(scripth.norm_vm_trace(net_f.trace), faulty), others_trace(scripth.norm_vm_trace(net_0.trace), faulty)
            mm, cons = R.compare_traces(a, [_as_exact(e) for e in b])
            if mm:
                problems.append('other devices received different commands: %s' % mm)
        prop = False if problems else (z3.And(*[c[1] for c in cons]) if cons else True)
        verdict, model = ctx.prove(prop)
        if verdict == 'unsat':
            return {'ok': True}
        if verdict == 'unknown':
            return {'inconclusive': case.tag}
        what = problems[0] if problems else 'other devices received different values'
        cv = scripth.concrete_values(case, ctx.model_values(model))
        fails = [(l, o, k) for l, o, k, f in log if f]
        msg = symx.run_in_child(lambda: replay_fault(case, prog, slots, cv, faulty, log))
        return {'violation': ('%s|%s' % (case.tag, scripth._sig_of(what)[:60]),
                              '%s\n  faults injected (target %s): %s\n  replay (fresh process): %s\n  script:\n%s' % (what, faulty, fails, msg, scripth.text_with_values(case, cv)),
                              {'script': scripth.text_with_values(case, cv), 'faults': fails}, msg is not None)}

    # every path (and the replay of a counterexample) runs in a freshly forked process: state that the code
    # keeps at module or class level cannot leak between fault vectors
    for kind, summary in symx.explore_forked(harness, on_path, max_paths=args['max_paths'], timeout_ms=5000, stats=res.stats,
                                             deadline=time.time() + args['budget_s']):
        if kind == 'error':
            res.error = summary
            break
        if summary.get('oob'):
            res.out_of_bound += 1
            continue
        res.nontrivial += 1
        if 'inconclusive' in summary:
            res.inconclusive.append(summary['inconclusive'])
            continue
        res.reached.add('containment')
        if 'violation' in summary:
            sig, msg_, inputs, replayed = summary['violation']
            res.violation(sig, msg_, inputs=inputs, replayed=replayed)
    if not symx.explore.last_exhaustive:
        res.exhaustive = False
    res.sample({'script': case.text[:300], 'faulty_target': faulty})
    res.functions = world.functions_seen()
    return res


def _as_exact(e):
    return e


def replay_fault(case, prog, slots, cv, faulty, log):
    saved = symx.Ctx.cur
    symx.Ctx.cur = None
    world.uninstall_real_mode()
    decisions = [f for _, _, _, f in log]
    try:
        it = iter(decisions)
        streak = {}
        maxc = [0]
        orig = world.configure

        def cfg(specs=world.DEFAULT_SPECS, **kw):
            n = orig(specs, **kw)

            def fault(label, op, seq):
                key = (label, op)
                if streak.get('last') != key:
                    streak.clear()
                streak['last'] = key
                if label not in (faulty if isinstance(faulty, tuple) else (faulty,)):
                    return False
                k = streak.get(key, 0)
                f = next(it, False) if k < 4 else False
                if f:
                    streak[key] = k + 1
                    maxc[0] = max(maxc[0], k + 1)
                else:
                    streak.pop(key, None)
                return f
            n.fault = fault
            return n
        end = {}
        net0 = scripth.run_vm(case, prog, slots, cv)        # reference run first, in the pristine process
        scripth.world.configure = cfg
        try:
            net = scripth.run_vm(case, prog, slots, cv, post=lambda n, m: end.update(pc=m._reg.pc, n=len(m._program)))
        finally:
            scripth.world.configure = orig
        if net.aborted:
            return 'aborted: %s' % net.aborted
        if end.get('pc') != end.get('n'):
            return 'stopped at %s of %s' % (end.get('pc'), end.get('n'))
        if maxc[0] > 3:
            return 'more than 3 attempts'
        a, b = others_trace(scripth.norm_vm_trace(net.trace), faulty), others_trace(scripth.norm_vm_trace(net0.trace), faulty)
        if a != b:
            return 'other devices: %r vs %r' % (a[:3], b[:3])
        return None
    finally:
        world.install_real_mode()
        symx.Ctx.cur = saved


def mismatch_worker(args):
    tag, body, *rest = args['mismatch']
    expected = [('color', 'B')] + (rest[0] if rest else []) + [('color', 'C'), ('power', 'B')]
    # the mismatching command sits between ordinary commands to healthy devices
    stmts = pre() + [R.Action('set', [L('B')])] + body + [R.Action('set', [L('C')]), R.Action('on', [L('B')])]
    case = scripth.Case(stmts, specs=SPECS, tag='mismatch-%s' % tag)
    res = report.WorkResult(case.tag)
    world.start_function_trace()
    res.sites.add('mismatch')
    prog, slots = scripth.compile_case(case)

    def harness(ctx):
        vals = scripth.make_values(ctx, case)
        end = {}
        net = scripth.run_vm(case, prog, slots, vals, post=lambda n, m: end.update(pc=m._reg.pc, n=len(m._program)))
        return vals, net, end
    for ctx, out in symx.explore(harness, max_paths=200, timeout_ms=5000, stats=res.stats):
        if isinstance(out, symx.Abort):
            res.out_of_bound += 1
            continue
        vals, net, end = out
        res.nontrivial += 1
        kinds = [(e[0], e[1]) for e in net.trace if e[0] in ('color', 'power', 'zone', 'tile')]
        problem = None
        if net.aborted:
            problem = 'script aborted: %s' % net.aborted
        elif end.get('pc') != end.get('n'):
            problem = 'script stopped early'
        elif kinds != expected:
            problem = 'commands reaching the devices: %r (expected only %r)' % (kinds, expected)
        if problem is None:
            res.reached.add('mismatch')
            continue
        verdict, model = ctx.prove(False)
        if verdict != 'sat':
            continue
        res.reached.add('mismatch')
        cv = scripth.concrete_values(case, ctx.model_values(model))
        saved = symx.Ctx.cur
        symx.Ctx.cur = None
        world.uninstall_real_mode()
        try:
            e2 = {}
            n2 = scripth.run_vm(case, prog, slots, cv, post=lambda n, m: e2.update(pc=m._reg.pc, n=len(m._program)))
            k2 = [(e[0], e[1]) for e in n2.trace if e[0] in ('color', 'power', 'zone', 'tile')]
            msg = n2.aborted or (None if k2 == expected and e2.get('pc') == e2.get('n') else repr(k2))
        finally:
            world.install_real_mode()
            symx.Ctx.cur = saved
        res.violation('%s|%s' % (case.tag, scripth._sig_of(problem)[:50]), '%s\n  replay: %s\n  script:\n%s' % (problem, msg, scripth.text_with_values(case, cv)),
                      inputs={'script': scripth.text_with_values(case, cv)}, replayed=msg is not None)
    res.sample({'script': case.text[:300]})
    res.functions = world.functions_seen()
    return res


USE_SCRIPT = ('hue 10 saturation 20 brightness 30 kelvin 2700\n'
              'set "A" on "A" set "Z" set "Z" zone 0 1 on "Z" set "M" set "M" row 0 set "M" begin stage column 0 end on "M"\n')


def discovery_worker(args):
    faulty = args['faulty']
    res = report.WorkResult('discovery faulty=%s' % faulty)
    world.start_function_trace()
    res.sites.add('discovery')
    specs = (('A', 'G1', 'L1', 'plain'), ('Z', 'G2', 'L2', 'multizone', 3), ('M', 'G3', 'L2', 'matrix', 0, 2, 2))

    def view(ls):
        return (list(ls.get_light_names()), {g: list(ls.get_group_lights(g)) for g in ls.get_group_names()},
                {g: list(ls.get_location_lights(g)) for g in ls.get_location_names()})

    def scenario(plan):
        # settings arrive as text when they come from a configuration file
        net = world.configure(specs[:1], discover=False, extra_settings={'default_num_lights': '3'})         # earlier: only A was known
        ls = net.light_set
        try:
            ls.discover()
        except Exception as ex:        # noqa
            return 'discover() raised %s: %s (first discovery, no faults)' % (type(ex).__name__, ex), None
        before = view(ls)
        net.devices = [world.make_device(net, s) for s in specs]
        streak = {}

        def fault(label, op, seq):
            if label != faulty:
                return False
            k = streak.get((label, op), 0)
            f = plan(label, op, k) if k < 4 else False
            streak[(label, op)] = k + 1 if f else 0
            if f and k + 1 >= 3:
                abandoned.append((label, op))
            return f
        abandoned = []
        net.fault = fault
        problem = None
        try:
            r = ls.discover()
        except Exception as ex:        # noqa
            return 'discover() raised %s: %s' % (type(ex).__name__, ex), None
        after = view(ls)
        net.fault = None
        if r is True and abandoned:
            problem = 'discovery reported success although %s never answered %s (three attempts)' % abandoned[0]
        elif r is False:
            if after != before:
                problem = 'failed discovery changed the directory: %r -> %r' % (before, after)
        elif r is True:
            if after[0] != ['A', 'M', 'Z']:
                problem = 'successful discovery lists %r' % (after[0],)
            else:
                # every discovered light must be usable: address each with each command kind
                mark = len(net.trace)
                p = Parser()
                p.parse(USE_SCRIPT)
                m = Machine()
                m.reset()
                m.run(p.get_program())
                used = [tuple(repr(x) for x in e) for e in net.trace[mark:]]
                if net.aborted:
                    problem = 'discovery reported success, but the lights it built abort a script: %s' % net.aborted
                elif reference.get('trace') is None:
                    reference['trace'] = used              # first call: the fault-free discovery
                elif used != reference['trace']:
                    diff = next((i for i, (a, b) in enumerate(zip(used, reference['trace'])) if a != b), min(len(used), len(reference['trace'])))
                    problem = ('discovery reported success, but its lights do not take commands like those of a fault-free discovery: command #%d is %s, expected %s'
                               % (diff + 1, used[diff] if diff < len(used) else 'missing', reference['trace'][diff] if diff < len(reference['trace']) else 'nothing'))
        else:
            problem = 'discover() returned %r' % (r,)
        return problem, r

    reference = {}
    saved0 = symx.Ctx.cur
    symx.Ctx.cur = None
    try:
        p0, r0 = scenario(lambda label, op, k: False)      # fault-free discovery: what the lights do with the script
    finally:
        symx.Ctx.cur = saved0
    if p0 is not None and 'raised' in p0:
        res.reached.add('discovery')
        res.violation('discovery|raises without any fault', '%s\n  settings: default_num_lights given as text, as a configuration file delivers it' % p0,
                      inputs={'faulty': None}, replayed=True)
        return res
    if p0 is not None or r0 is not True or not reference.get('trace'):
        res.error = 'fault-free reference discovery failed: %r %r' % (p0, r0)
        return res

    def harness(ctx):
        log = []

        def plan(label, op, k):
            f = ctx.choose(2, 'fail:%s:%d' % (op, k)) == 1
            log.append(f)
            return f
        return scenario(plan), log
    for ctx, out in symx.explore(harness, max_paths=4000, timeout_ms=4000, stats=res.stats, deadline=time.time() + args['budget_s']):
        if isinstance(out, symx.Abort):
            res.out_of_bound += 1
            continue
        (problem, r), log = out
        res.nontrivial += 1
        res.reached.add('discovery')
        if problem is None:
            continue
        it = iter(log)
        saved = symx.Ctx.cur
        symx.Ctx.cur = None
        try:
            p2, _ = scenario(lambda label, op, k: next(it, False))
        finally:
            symx.Ctx.cur = saved
        res.violation('discovery|%s|%s' % (faulty, scripth._sig_of(problem)[:50]), '%s\n  faulty device %s, fault vector %s\n  replay: %s' % (problem, faulty, log, p2),
                      inputs={'faulty': faulty, 'faults': log}, replayed=p2 is not None)
    if not symx.explore.last_exhaustive:
        res.exhaustive = False
    res.sample({'population': specs, 'faulty': faulty})
    res.functions = world.functions_seen()
    return res


def dispatch(args):
    return {'fault': fault_worker, 'mismatch': mismatch_worker, 'discovery': discovery_worker}[args['kind']](args)


def run(tier, seed):
    t0 = time.time()
    q = tier == 'quick'
    items = [{'kind': 'fault', 'name': n, 'max_paths': 1500 if q else 20000, 'budget_s': 40 if q else 500} for n in SCRIPTS]
    if not q:
        # every other single faulty device per script, and pairs of faulty devices
        for n in SCRIPTS:
            for f in ('A', 'B', 'C', 'Z', 'M'):
                if f != SCRIPTS[n][1]:
                    items.append({'kind': 'fault', 'name': n, 'faulty': f, 'max_paths': 20000, 'budget_s': 300})
            for pair in (('A', 'B'), ('A', 'Z'), ('B', 'M'), ('Z', 'M')):
                items.append({'kind': 'fault', 'name': n, 'faulty': pair, 'max_paths': 30000, 'budget_s': 400})
    items += [{'kind': 'mismatch', 'mismatch': m} for m in MISMATCH]
    items += [{'kind': 'discovery', 'faulty': f, 'budget_s': 40 if q else 400} for f in ('A', 'Z', 'M', '<lan>')]
    results, skipped = report.run_pool(dispatch, items, budget_s=common.tier_budget(tier, 70, 900))
    return report.finish(
        PROP, tier, seed, 'fault_enumeration', results, skipped,
        rule='fault plans are choice variables: every attempt of every request to the faulty target (one device, or the LAN broadcast object) either raises '
             'WorkflowException or succeeds, explored exhaustively (depth-first) up to 4 consecutive failures per request; colours are symbolic. Per path: the script '
             'reaches its end, no request is tried more than 3 times, and the commands reaching every other device equal those of the fault-free run on the same '
             'values (z3). Wrong-type and unknown targets between ordinary commands: only the ordinary commands arrive. Discovery with a faulty device or LAN: never '
             'raises, False leaves the directory unchanged, True yields lights that a script can address with every command kind',
        assumptions=common.SCRIPT_ASSUMPTIONS[:3] + ['the LAN-wide broadcasts (set/on/off all) are fire-and-forget in lifxlan and are not made to fail; the LAN discovery request is',
                                                      'a device that does not answer = the lifxlan call raises WorkflowException (lifxlan\'s documented behaviour)',
                                                      'after a `get` from the faulty device only commands that do not depend on the lost answer (power) are compared'],
        bounds={'scripts': sorted(SCRIPTS), 'requests_per_script': '<=7', 'consecutive_failures_per_request': '<=4', 'mismatch_kinds': len(MISMATCH),
                'discovery_population': '1 known + plain/multizone/matrix snapshot, one faulty device'},
        t0=t0, technique='fault enumeration by symbolic choice variables over the real retry/VM/LightSet code (proxy objects, z3 for the colour values)')


def replay(v):
    print(v['message'])
    return 0
