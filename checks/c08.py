"""C08 -- queued jobs run one at a time, in order, exactly once, and the queue drains."""
import collections
import time

import bardolph.lib.job_control as jc_mod

from vlib import report, simsched, symx, world
from checks import common

PROP = 'C08'


class JobExit(SystemExit):
    """A job body that ends through sys.exit(): an exception outside the Exception hierarchy."""

# client programs: list of clients, each a list of (op, job id, flags)
SCENARIOS = {
    'add-add|insert': [[('add', 1), ('add', 2)], [('insert', 3)]],
    'add|add|insert': [[('add', 1)], [('add', 2)], [('insert', 3)]],
    'add-spawn|add': [[('add', 1), ('spawn', 'b1')], [('add', 2)]],
    'four-in-a-row': [[('add', 1), ('add', 2), ('add', 3), ('add', 4)]],
    'add|spawn-spawn': [[('add', 1)], [('spawn', 'b1'), ('spawn', 'b2')]],
    'insert-insert|add-add': [[('insert', 1), ('insert', 2)], [('add', 3), ('add', 4)]],
    'add|add|add': [[('add', 1)], [('add', 2)], [('add', 3)]],
    'add-probe|insert-probe': [[('add', 1), ('probe', None), ('add', 2)], [('insert', 3), ('probe', None)]],
    'add-add-add|clear': [[('add', 1), ('add', 2), ('add', 3)], [('clear', None)]],
    'add-add|clear-insert': [[('add', 1), ('add', 2)], [('clear', None), ('insert', 3)]],
    # a stop request for the current job, then more work: the stopped body is still executing until it returns
    'add-stop-add': [[('add', 1), ('stop', None), ('add', 2)]],
    'add|stop-insert-add': [[('add', 1)], [('stop', None), ('insert', 2), ('add', 3)]],
    # background jobs asked to stop: known under their name until their bodies have returned
    'spawn-spawn|stopbg-probe': [[('spawn', 'b1'), ('spawn', 'b2')], [('stopbg', None), ('probe', None)]],
    'add-spawn-stopbg-add': [[('add', 1), ('spawn', 'b1'), ('stopbg', None), ('add', 2)]],
}


class RecDeque(collections.deque):
    """The controller's own deque type, recording its linearised operations."""
    log = None
    api = None          # parallel to log: the client call (add/insert) in progress on the thread that does the operation

    @staticmethod
    def _api():
        sch = simsched.S()
        RecDeque.api.append(RecDeque.api_of.get(sch.cur if sch is not None else None))

    def append(self, x):
        RecDeque.log.append(('append', x))
        RecDeque._api()
        super().append(x)

    def appendleft(self, x):
        RecDeque.log.append(('appendleft', x))
        RecDeque._api()
        super().appendleft(x)

    def popleft(self):
        x = super().popleft()
        RecDeque.log.append(('popleft', x))
        RecDeque.api.append(None)
        return x

    def clear(self):
        RecDeque.log.append(('clear', None))
        RecDeque.api.append(None)
        super().clear()


def scenario(ctx, clients, max_preempt, raising):
    s = simsched.Sched(ctx, max_preempt=max_preempt, max_steps=900)
    saved = (jc_mod.threading, jc_mod.collections)
    jc_mod.threading = simsched.ShimThreading
    RecDeque.log = []
    RecDeque.api = []
    RecDeque.api_of = {}
    jc_mod.collections = type('C', (), {'deque': RecDeque})
    problems = []
    try:
        JC = simsched.traced(jc_mod.JobControl, ['_queue', '_active_agent', '_background'])
        jc = JC()
        events = []
        running = {'queued': 0}
        jobs = {}

        class J(jc_mod.Job):
            def __init__(self, ident, background):
                self.ident, self.background = ident, background

            def execute(self):
                events.append(('start', self.ident))
                if not self.background:
                    running['queued'] += 1
                    if running['queued'] > 1:
                        problems.append('two queued jobs executing at once (job %s started while another runs)' % (self.ident,))
                else:
                    if not jc.is_running(self.ident):
                        problems.append('background job %s is executing but is_running(%r) is False' % (self.ident, self.ident))
                s.yield_point('job body')
                if self.background and not (jc.is_running(self.ident) and jc.has_jobs()):
                    problems.append('background job %s is still executing but is no longer reported as running (is_running/has_jobs)' % (self.ident,))
                fails = ctx.choose(3, 'job-raises') if raising else 0      # 0 returns, 1 raises an Exception, 2 raises a BaseException (sys.exit())
                if not self.background:
                    running['queued'] -= 1
                events.append(('end', self.ident))
                if fails == 1:
                    raise RuntimeError('job %s fails' % (self.ident,))
                if fails == 2:
                    raise JobExit('job %s fails' % (self.ident,))

            def prepare(self):
                # called by the controller when the job is started, in the starter's thread; it may fail, too
                if raising and ctx.choose(4, 'prepare-raises') == 1:
                    prepare_failed.add(self.ident)
                    raise RuntimeError('job %s fails in prepare' % (self.ident,))

            def request_stop(self):
                pass

        prepare_failed = set()

        def client(prog, cname):
            def body():
                for op, ident in prog:
                    if op == 'add':
                        jobs[ident] = J(ident, False)
                        RecDeque.api_of[s.cur] = 'add'
                        r = jc.add_job(jobs[ident], 'q%s' % ident)
                        RecDeque.api_of.pop(s.cur, None)
                    elif op == 'insert':
                        jobs[ident] = J(ident, False)
                        RecDeque.api_of[s.cur] = 'insert'
                        r = jc.insert_job(jobs[ident], 'q%s' % ident)
                        RecDeque.api_of.pop(s.cur, None)
                    elif op == 'spawn':
                        jobs[ident] = J(ident, True)
                        r = jc.spawn_job(jobs[ident], ident)
                    elif op == 'clear':
                        jc.clear_queue()
                        continue
                    elif op == 'stop':
                        jc.stop_current()
                        continue
                    elif op == 'stopbg':
                        jc.stop_background()
                        continue
                    else:
                        jc.has_jobs(); jc.get_current(); jc.get_queued(); jc.is_running('b1')
                        continue
                    if r is None:
                        problems.append('%s returned no agent' % op)
            return body
        for i, prog in enumerate(clients):
            s.spawn(client(prog, 'client%d' % i), 'client%d' % i)
        left = s.run()
        # ---- verdicts for this schedule ----
        for t in s.threads:
            if t.exc is not None and t.name.startswith('client'):
                problems.append('%s: a failing job makes the client\'s call raise: %s: %s' % (t.name, type(t.exc).__name__, t.exc))
            elif t.exc is not None and not (isinstance(t.exc, (RuntimeError, JobExit)) and 'fails' in str(t.exc)):
                problems.append('%s: exception escapes: %s: %s' % (t.name, type(t.exc).__name__, t.exc))
        if s.out_of_steps:
            problems.append('schedule does not finish within the step bound')
        elif left:
            problems.append('deadlock: threads %s never finish' % [t.name for t in left])
        starts = [e[1] for e in events if e[0] == 'start']
        cleared = set()
        m0 = collections.deque()
        for op, x in RecDeque.log:
            if op == 'append':
                m0.append(x)
            elif op == 'appendleft':
                m0.appendleft(x)
            elif op == 'popleft':
                if m0 and m0[0] is x:
                    m0.popleft()
            else:
                cleared.update(a.job.ident for a in m0)
                m0.clear()
        for ident, j in jobs.items():
            n = starts.count(ident)
            want = 0 if (ident in cleared or ident in prepare_failed) else 1
            if n != want and not left and not s.out_of_steps:
                problems.append('job %s was started %d times%s' % (ident, n, ' although it had been cleared from the queue' if ident in cleared else ''))
        # order: every started queued job was the head of the queue as linearised by the controller's own deque
        model = collections.deque()
        order = []
        for (op, x), api in zip(RecDeque.log, RecDeque.api):
            # the client call decides the end of the queue, not the deque operation the controller happens to use
            if op == 'append' and api == 'insert' and model:
                problems.append('insert_job put job %s behind %d waiting job(s) instead of at the front' % (x.job.ident, len(model)))
            if op == 'appendleft' and api == 'add' and model:
                problems.append('add_job put job %s in front of %d waiting job(s) instead of at the end' % (x.job.ident, len(model)))
            if op == 'append':
                model.append(x)
            elif op == 'appendleft':
                model.appendleft(x)
            elif op == 'clear':
                model.clear()
            else:
                if not model or model[0] is not x:
                    problems.append('a job other than the head of the queue was taken')
                else:
                    model.popleft()
                order.append(x.job.ident)
        order = [i for i in order if i not in prepare_failed]        # taken in turn, but could not get ready: never executed
        qstarts = [i for i in starts if not jobs[i].background]
        if qstarts != order[:len(qstarts)] and not problems:
            problems.append('start order %s differs from queue order %s' % (qstarts, order))
        if not left and not s.out_of_steps:
            simsched.Sched.cur_sched = None
            if jc.__dict__['$_active_agent'] is not None or len(jc.__dict__['$_queue']) or len(jc.__dict__['$_background']):
                problems.append('controller not drained: current=%r queued=%d background=%d'
                                % (jc.__dict__['$_active_agent'], len(jc.__dict__['$_queue']), len(jc.__dict__['$_background'])))
            for ident, j in jobs.items():
                if j.background and ident in jc.__dict__['$_background']:
                    problems.append('finished background job %s still known' % ident)
        return problems, events, list(s.switches)
    finally:
        jc_mod.threading, jc_mod.collections = saved
        simsched.Sched.cur_sched = None


def worker(args):
    name = args['scenario']
    res = report.WorkResult('schedules %s raising=%s' % (name, args['raising']))
    world.start_function_trace()
    res.sites.add('schedule')
    clients = SCENARIOS[name]
    seen = {}
    import logging
    logging.disable(logging.CRITICAL)
    # iterative context bounding: all schedules with 0, then <= 1, ... preemptions (most races need few); on a busy machine
    # the shallow races are then found before the time budget ends
    t_end = time.time() + args['budget_s']
    exhaustive = True
    bound_of = {}
    for bound in range(0, args['preempt'] + 1):
        share = args['max_paths'] if bound == args['preempt'] else max(300, args['max_paths'] // 4)
        for ctx, out in symx.explore(lambda c, b=bound: scenario(c, clients, b, args['raising']), max_paths=share,
                                     timeout_ms=1000, stats=res.stats, deadline=t_end):
            if isinstance(out, symx.Abort):
                res.out_of_bound += 1
                continue
            problems, events, switches = out
            res.nontrivial += 1
            res.reached.add('schedule')
            if problems:
                key = problems[0].split(':')[0][:60]
                if key not in seen:
                    seen[key] = (problems[0], events, switches, [a for a, _ in ctx.trail])
                    bound_of[key] = bound
        exhaustive = exhaustive and symx.explore.last_exhaustive
    symx.explore.last_exhaustive = exhaustive
    for key, (msg, events, switches, trail) in seen.items():
        # replay the same schedule vector
        rctx = symx.Ctx(prefix=trail, stats=symx.Stats())
        symx.Ctx.cur = rctx
        try:
            p2, e2, _ = scenario(rctx, clients, bound_of.get(key, args['preempt']), args['raising'])
        except symx.Abort:
            p2 = []
        finally:
            symx.Ctx.cur = None
        res.violation('schedule|%s' % key, '%s\n  scenario %s; thread switches: %s\n  events: %s\n  replay of the same schedule: %s'
                      % (msg, name, switches, events, p2[:1]), inputs={'scenario': name, 'schedule': trail}, replayed=bool(p2))
    if not symx.explore.last_exhaustive:
        res.exhaustive = False
    res.sample({'scenario': name, 'clients': clients, 'preemption_bound': args['preempt']})
    res.functions = world.functions_seen()
    return res


def run(tier, seed):
    t0 = time.time()
    q = tier == 'quick'
    items = []
    for name in SCENARIOS:
        for raising in (False, True):
            items.append({'scenario': name, 'raising': raising, 'preempt': 2 if q else 3, 'max_paths': 6000 if q else 400000,
                          'budget_s': 28 if q else 800})
    if tier == 'thorough':
        common.fit_item_budgets(items, common.tier_budget(tier, 75, 1000))          # every scenario gets its turn
    results, skipped = report.run_pool(worker, items, budget_s=common.tier_budget(tier, 75, 1000))
    return report.finish(
        PROP, tier, seed, 'exploration', results, skipped,
        rule='work item = one client scenario (1..3 client threads issuing add/insert/spawn and status probes, 1..4 jobs, job bodies finishing or raising as a choice '
             'variable); the real JobControl/Agent code runs under a deterministic scheduler whose decision at every yield point (each lock/thread operation and each read or '
             'write of _queue/_active_agent/_background) is a choice variable; every schedule with at most 2 (quick) / 3 (thorough) preemptions is executed: exclusion, head-of-queue '
             'order, exactly-once start, no escaping exception, no deadlock, drained controller, background bookkeeping',
        assumptions=['threading inside bardolph.lib.job_control is replaced by baton-passing shims (Thread, RLock); lock acquisition never times out',
                     'single deque/dict operations are atomic (GIL); statements that touch no shared field commute with other threads',
                     'the solver\'s part here is only to enumerate the feasible choice vectors; the assertions are concrete per schedule'],
        bounds={'preemptions': 2 if q else 3, 'scenarios': sorted(SCENARIOS), 'schedules_per_item': 6000 if q else 400000},
        t0=t0, technique='systematic schedule exploration (choice variables with a preemption bound, depth-first via symx) of the real threaded controller code')


def replay(v):
    print(v['message'])
    return 0
