"""C14 -- switching units re-expresses settings without changing what the lights get."""
import itertools
import time

import z3

from vlib import report, scripth, symx, world, refsem as R
from checks import common

PROP = 'C14'
N = R.Num
MODES = ('logical', 'raw', 'rgb')
REGS = {'logical': ('hue', 'saturation', 'brightness'), 'raw': ('hue', 'saturation', 'brightness'),
        'rgb': ('red', 'green', 'blue')}
DOM = {'logical': [('real', 0, 360), ('real', 0, 100), ('real', 0, 100)],
       'raw': [('real', 0, 65535)] * 3, 'rgb': [('real', 0, 100)] * 3}
ALLREGS = ('hue', 'saturation', 'brightness', 'red', 'green', 'blue', 'kelvin', 'time', 'duration')
# documented table: registers rewritten per transition
REWRITTEN = {
    ('logical', 'raw'): {'time', 'duration', 'hue', 'saturation', 'brightness'},
    ('raw', 'logical'): {'time', 'duration', 'hue', 'saturation', 'brightness'},
    ('rgb', 'raw'): {'time', 'duration', 'hue', 'saturation', 'brightness'},
    ('raw', 'rgb'): {'time', 'duration', 'red', 'green', 'blue'},
    ('rgb', 'logical'): {'hue', 'saturation', 'brightness'},
    ('logical', 'rgb'): {'red', 'green', 'blue'},
}


def chain_cases(maxlen):
    out = []
    for m0 in MODES:
        for k in range(1, maxlen + 1):
            for chain in itertools.product(MODES, repeat=k):
                out.append((m0,) + chain)
    return out


TAILS = {
    'light': lambda: [R.Action('set', [R.Operand('light', R.Str('A'))]), R.Action('on', [R.Operand('light', R.Str('B'))])],
    'zone': lambda: [R.Action('set', [R.Operand('light', R.Str('Z'), zone=(N(value=1), N(value=3)))]), R.Action('set', [R.Operand('light', R.Str('Z'))])],
    'group': lambda: [R.Action('set', [R.Operand('group', R.Str('G1'))]), R.Action('off', [R.Operand('group', R.Str('G2'))])],
    'location': lambda: [R.Action('set', [R.Operand('location', R.Str('L2'))]), R.Action('on', [R.Operand('location', R.Str('L1'))])],
    'all': lambda: [R.Action('set', 'all'), R.Action('off', 'all')],
    'and-list': lambda: [R.Action('set', [R.Operand('light', R.Str('A')), R.Operand('group', R.Str('G2'))])],
    'matrix': lambda: [R.Action('set', [R.Operand('light', R.Str('M'), matrix=('inline', (N(value=0), N(value=1)), None))])],
}


def build_loop_pair(chain):
    """Execution order differs from text order: the switches sit in a loop body (and in a routine defined ahead of the
    main script's own switch), followed by literal settings in the mode they establish."""
    m0, m1 = chain[0], chain[1]
    sid = [0]
    doms = {}

    def num(dom):
        sid[0] += 1
        doms[sid[0]] = dom
        return N(sid=sid[0], kind='any')
    pre = [R.Units(m0)]
    for r, d in zip(REGS[m0], DOM[m0]):
        pre.append(R.SetReg(r, num(d)))
    pre.append(R.SetReg('kelvin', num(('int', 1500, 9000))))
    tmax = 10 ** 6 if m0 != 'raw' else 10 ** 9
    pre.append(R.SetReg('duration', num(('real', 0, tmax))))
    # whole colours are set afresh after each `units m0` (the property is about re-expressing settings, not about
    # editing one component of a colour that has been through integer raw units and back)
    lits = [num(d) for d in DOM[m0]]
    lits2 = [num(d) for d in DOM[m0]]
    fresh = [R.SetReg(r, v) for r, v in zip(REGS[m0], lits)]
    fresh2 = [R.SetReg(r, v) for r, v in zip(REGS[m0], lits2)]
    act = [R.Action('set', [R.Operand('light', R.Str('A'))])]
    body_with = [R.Units(m0)] + fresh + [R.Units(m1)] + act
    body_plain = fresh + act
    # a routine that switches, defined ahead of the place where the main script makes the same switch
    rt_with = [R.RoutineDef('sw', [], [R.Units(m1)] + act + [R.Units(m0)])]
    rt_plain = [R.RoutineDef('sw', [], act)]
    tail_with = [R.Call('sw', [])] + fresh2 + [R.Units(m1)] + act
    tail_plain = [R.Call('sw', [])] + fresh2 + act
    tag = '>'.join(chain[:2]) + ' [in a loop and a routine]'
    return (scripth.Case(rt_with + pre + [R.Repeat('count', body_with, n=N(value=2))] + [R.Units(m0)] + tail_with, tag=tag, doms=doms),
            scripth.Case(rt_plain + pre + [R.Repeat('count', body_plain, n=N(value=2))] + tail_plain, tag=tag + ' (plain)', doms=doms))


def build_pair(chain, timeat=False, tail_kind='light', before=None):
    """-> (case_with_chain, case_plain) sharing the same symbolic literals.  With timeat the pending
    delay is a time-of-day wait instead of a number."""
    m0 = chain[0]
    sid = [0]
    doms = {}

    def num(dom):
        sid[0] += 1
        doms[sid[0]] = dom
        return N(sid=sid[0], kind='any')
    # `before`: the chain's run is the second run of its Machine, and the script relies on logical units being the default
    pre = [R.Units(m0)] if not (before and m0 == 'logical') else []
    for r, d in zip(REGS[m0], DOM[m0]):
        pre.append(R.SetReg(r, num(d)))
    pre.append(R.SetReg('kelvin', num(('int', 1500, 9000))))
    tmax = 10 ** 6 if m0 != 'raw' else 10 ** 9
    pre.append(R.TimeAt(['8:00', '2*:*5']) if timeat else R.SetReg('time', num(('real', 0, tmax))))
    pre.append(R.SetReg('duration', num(('real', 0, tmax))))
    tail = TAILS[tail_kind]()
    sw = [R.Units(m) for m in chain[1:]]
    tag = '>'.join(chain) + (' [time at]' if timeat else '') + ('' if tail_kind == 'light' else ' [%s]' % tail_kind) + (' [second run]' if before else '')
    return (scripth.Case(pre + sw + tail, tag=tag, doms=doms, before=before), scripth.Case(pre + tail, tag=tag + ' (plain)', doms=doms))


def color_close(a, b, tol, rgb_involved):
    """z3: colours a, b (4 transmitted components) equal to within tol, as colours."""
    t = symx.term(tol)

    def close(x, y):
        d = symx.term(x) - symx.term(y)
        return z3.And(d <= t, -d <= t)

    def hue_close(x, y):
        d = symx.term(x) - symx.term(y)
        return z3.Or(z3.And(d <= t, -d <= t), d >= 65535 - t, -d >= 65535 - t)
    brt = close(a[2], b[2])
    kel = close(a[3], b[3])
    sat = close(a[1], b[1])
    hue = hue_close(a[0], b[0])
    if not rgb_involved:
        return z3.And(hue, sat, brt, kel)
    dark = z3.And(symx.term(a[2]) <= t, symx.term(b[2]) <= t)
    grey = z3.And(symx.term(a[1]) <= t, symx.term(b[1]) <= t)
    return z3.And(brt, kel, z3.Or(dark, z3.And(sat, z3.Or(grey, hue))))


def fold_delays(trace):
    """Attach to every command the delay requested since the previous command
    (no pause request = delay 0), so that 'pause 1e-9' and 'no pause' compare as numbers."""
    out = []
    pending = 0
    for e in trace:
        if e[0] == 'pause':
            pending = pending + e[1]
        elif e[0] == 'wait_until':
            out.append(('wait_until %s' % (e[1],), 0))
        else:
            out.append(tuple(e) + (pending,))
            pending = 0
    return out


def pair_worker(args):
    chain = args['chain']
    ca, cb = build_loop_pair(chain) if args.get('loop') else build_pair(chain, args.get('timeat', False), args.get('tail', 'light'), args.get('before'))
    res = report.WorkResult(ca.tag)
    world.start_function_trace()
    res.sites.add('relational')
    rgb = 'rgb' in chain
    mode = 'elide' if rgb else 'exact'
    proga, slotsa = scripth.compile_case(ca)
    progb, slotsb = scripth.compile_case(cb)
    deadline = time.time() + args['budget_s']

    def harness(ctx):
        vals = scripth.make_values(ctx, ca)
        na = scripth.run_vm(ca, proga, slotsa, vals)
        nb = scripth.run_vm(cb, progb, slotsb, vals)
        return vals, na, nb

    def relation(ta, tb, tol_c, tol_t):
        ta, tb = fold_delays(ta), fold_delays(tb)
        if [e[0] for e in ta] != [e[0] for e in tb]:
            return 'event kinds differ: %s vs %s' % ([e[0] for e in ta], [e[0] for e in tb]), None
        cons = []
        for i, (x, y) in enumerate(zip(ta, tb)):
            d = symx.term(x[-1]) - symx.term(y[-1])
            cons.append(('ev%d pending delay' % i, z3.And(d <= symx.term(tol_t) / 1000, -d <= symx.term(tol_t) / 1000)))
            if x[0] == 'color':
                cons.append(('ev%d colour' % i, color_close(x[2], y[2], tol_c, rgb)))
                d = symx.term(x[3]) - symx.term(y[3])
                cons.append(('ev%d duration' % i, z3.And(d <= tol_t, -d <= tol_t)))
            elif x[0] == 'power':
                d = symx.term(x[3]) - symx.term(y[3])
                cons.append(('ev%d power duration' % i, z3.And(d <= tol_t, -d <= tol_t, symx.eq(x[2], y[2]))))
            elif x[0] in ('zone', 'all_color', 'all_power', 'tile'):
                col, dur = {'zone': (4, 5), 'all_color': (1, 2), 'all_power': (None, 2), 'tile': (2, 3)}[x[0]]
                d = symx.term(x[dur]) - symx.term(y[dur])
                cons.append(('ev%d %s duration' % (i, x[0]), z3.And(d <= tol_t, -d <= tol_t)))
                if x[0] == 'zone':
                    if (x[1], x[2], x[3]) != (y[1], y[2], y[3]):
                        return 'ev%d: zone range differs' % i, None
                    cons.append(('ev%d zone colour' % i, color_close(x[col], y[col], tol_c, rgb)))
                elif x[0] == 'all_color':
                    cons.append(('ev%d colour' % i, color_close(x[col], y[col], tol_c, rgb)))
                elif x[0] == 'all_power':
                    cons.append(('ev%d power' % i, symx.eq(x[1], y[1])))
                else:
                    if len(x[col]) != len(y[col]):
                        return 'ev%d: tile size differs' % i, None
                    for k, (ca_, cb_) in enumerate(zip(x[col], y[col])):
                        cons.append(('ev%d cell %d colour' % (i, k), color_close(ca_, cb_, tol_c, rgb)))
        return None, cons

    from fractions import Fraction
    validated = [0]
    unsupported = [0]
    for ctx, out in symx.explore(harness, max_paths=args['max_paths'], timeout_ms=args['timeout_ms'],
                                 stats=res.stats, round_mode=mode, deadline=deadline):
        if isinstance(out, symx.Abort):
            res.out_of_bound += 1
            if str(out.why).startswith('unsupported') and unsupported[0] < 4:
                # the proxies cannot follow the code here: decide the path so far by concrete runs on its models
                unsupported[0] += 1
                ctx.deadline = None
                vm_ = ctx.path_model()
                if vm_ is not None:
                    cv = scripth.concrete_values(ca, ctx.model_values(vm_))
                    msg = replay_pair(ca, cb, proga, slotsa, progb, slotsb, cv, rgb)
                    res.extra['unsupported_paths'] = res.extra.get('unsupported_paths', 0) + 1
                    if msg is not None:
                        res.violation('%s|concrete %s' % (res.label, scripth._sig_of(msg)),
                                      'units chain %s: %s\n  found by a concrete run on a model of a path the proxies could not follow (%s)\n  with chain:\n%s'
                                      % (res.label, msg, out.why, scripth.text_with_values(ca, cv)),
                                      inputs={'chain': list(chain), 'values': cv, 'script': scripth.text_with_values(ca, cv)}, replayed=True)
                        break
                    res.inconclusive.append('%s: path not followed symbolically (%s); concrete run agrees' % (res.label, out.why))
            continue
        vals, na, nb = out
        res.nontrivial += 1
        if na.aborted or nb.aborted:
            mm, cons = 'run aborted: %s' % (na.aborted or nb.aborted), None
        else:
            # elide mode: unrounded values must agree to 1/4 (=> rounded integers differ by <= 1
            # with at most 3 roundings of <= 1/2 each)
            tol = Fraction(1, 4) if mode == 'elide' else 1
            mm, cons = relation(na.trace, nb.trace, tol, tol)
            if mode == 'elide' and ctx.elided_rounds > 6:
                res.inconclusive.append('%s: %d elided roundings' % (res.label, ctx.elided_rounds))
        if mm is None:
            verdict, model = ctx.prove(z3.And(*[c for _, c in cons]))
        else:
            verdict, model = ctx.prove(False)
        if verdict == 'unsat':
            res.reached.add('relational')
            if validated[0] < 3:
                # with real rounding, on the plain numbers of a model of this path (round-elision and real arithmetic cannot see
                # a defect that lives in a rounding step)
                validated[0] += 1
                vm_ = ctx.path_model()
                if vm_ is not None:
                    cv = scripth.concrete_values(ca, ctx.model_values(vm_))
                    msg = replay_pair(ca, cb, proga, slotsa, progb, slotsb, cv, rgb)
                    res.extra['validation_runs'] = res.extra.get('validation_runs', 0) + 1
                    if msg is not None:
                        res.violation('%s|validation %s' % (res.label, scripth._sig_of(msg)),
                                      'units chain %s: %s\n  found by the concrete run (real rounding) on a model of a path the solver had passed\n  with chain:\n%s'
                                      % (res.label, msg, scripth.text_with_values(ca, cv)),
                                      inputs={'chain': list(chain), 'values': cv, 'script': scripth.text_with_values(ca, cv)}, replayed=True)
                        break
            continue
        if verdict == 'unknown':
            res.inconclusive.append('%s: solver unknown' % res.label)
            continue
        res.reached.add('relational')
        what = mm
        if what is None:
            for d, c in cons:
                if not z3.is_true(model.eval(c, model_completion=True)):
                    what = d
                    break
        # replay concretely (exact rounding, plain floats)
        cv = scripth.concrete_values(ca, ctx.model_values(model))
        msg = replay_pair(ca, cb, proga, slotsa, progb, slotsb, cv, rgb)
        if msg is None and (mode == 'elide' or what is None):
            # round-elision asserts more than the property (unrounded values within 1/4); a model that
            # fails it but whose real, rounded run agrees within one unit is not a counterexample --
            # and a nonlinear model that does not even violate the constraints it was returned for is unusable
            res.inconclusive.append('%s: elided-rounding bound exceeded symbolically, concrete run agrees' % res.label)
            continue
        res.violation('%s|%s' % (res.label, scripth._sig_of(what or 'differs')),
                      'units chain %s: %s\n  replay: %s\n  with chain:\n%s' % (res.label, what, msg, scripth.text_with_values(ca, cv)),
                      inputs={'chain': list(chain), 'values': cv, 'script': scripth.text_with_values(ca, cv)},
                      replayed=msg is not None)
    if not symx.explore.last_exhaustive:
        res.exhaustive = False
    res.sample({'chain': list(chain), 'script': ca.text})
    res.functions = world.functions_seen()
    return res


def replay_pair(ca, cb, proga, slotsa, progb, slotsb, cv, rgb):
    saved = symx.Ctx.cur
    symx.Ctx.cur = None
    world.uninstall_real_mode()
    try:
        na = scripth.run_vm(ca, proga, slotsa, cv)
        nb = scripth.run_vm(cb, progb, slotsb, cv)
        if na.aborted or nb.aborted:
            return 'run aborted: %s' % (na.aborted or nb.aborted)
        fa, fb = fold_delays(na.trace), fold_delays(nb.trace)
        ka, kb = [e[0] for e in fa], [e[0] for e in fb]
        if ka != kb:
            return 'event kinds differ %s vs %s' % (ka, kb)
        for x, y in zip(fa, fb):
            if abs(x[-1] - y[-1]) > 0.001 + 1e-9:
                return 'pending delay %r vs %r' % (x[-1], y[-1])
            if x[0] == 'color':
                if not z3.is_true(z3.simplify(color_close(x[2], y[2], 1, rgb))):
                    return 'colour %r vs %r' % (x[2], y[2])
                if abs(x[3] - y[3]) > 1:
                    return 'duration %r vs %r' % (x[3], y[3])
            if x[0] == 'power' and (abs(x[3] - y[3]) > 1 or x[2] != y[2]):
                return 'power %r vs %r' % (x, y)
            if x[0] in ('zone', 'all_color', 'all_power', 'tile'):
                col, dur = {'zone': (4, 5), 'all_color': (1, 2), 'all_power': (None, 2), 'tile': (2, 3)}[x[0]]
                if abs(x[dur] - y[dur]) > 1:
                    return '%s duration %r vs %r' % (x[0], x[dur], y[dur])
                if x[0] == 'all_power' and x[1] != y[1]:
                    return 'power %r vs %r' % (x, y)
                if x[0] in ('zone', 'all_color') and not z3.is_true(z3.simplify(color_close(x[col], y[col], 1, rgb))):
                    return '%s colour %r vs %r' % (x[0], x[col], y[col])
                if x[0] == 'zone' and (x[1], x[2], x[3]) != (y[1], y[2], y[3]):
                    return 'zone range %r vs %r' % (x[1:4], y[1:4])
                if x[0] == 'tile':
                    for k, (ca_, cb_) in enumerate(zip(x[col], y[col])):
                        if not z3.is_true(z3.simplify(color_close(ca_, cb_, 1, rgb))):
                            return 'cell %d colour %r vs %r' % (k, ca_, cb_)
        return None
    finally:
        world.install_real_mode()
        symx.Ctx.cur = saved


# --- which registers a transition rewrites ------------------------------------
def table_worker(args):
    frm, to = args['pair']
    res = report.WorkResult('table %s>%s' % (frm, to))
    world.start_function_trace()
    res.sites.add('table')
    sid = [0]
    doms = {}
    stmts = [R.Units(frm)]
    for r in ALLREGS:
        sid[0] += 1
        if r in ('red', 'green', 'blue'):
            doms[sid[0]] = ('real', 0, 100)
        elif r == 'hue':
            doms[sid[0]] = ('real', 0, 360 if frm != 'raw' else 65535)
        elif r in ('saturation', 'brightness'):
            doms[sid[0]] = ('real', 0, 100 if frm != 'raw' else 65535)
        elif r == 'kelvin':
            doms[sid[0]] = ('int', 1500, 9000)
        else:
            doms[sid[0]] = ('real', 0, 10 ** 6)
        stmts.append(R.SetReg(r, N(sid=sid[0], kind='any')))
    stmts.append(R.Units(to))
    stmts += [R.Print(R.Reg(r)) for r in ALLREGS]
    case = scripth.Case(stmts, tag=res.label, doms=doms)
    prog, slots = scripth.compile_case(case)
    keep = set(ALLREGS) - REWRITTEN.get((frm, to), set())

    def harness(ctx):
        vals = scripth.make_values(ctx, case)
        net = scripth.run_vm(case, prog, slots, vals)
        return vals, net
    for ctx, out in symx.explore(harness, max_paths=2000, timeout_ms=args['timeout_ms'], stats=res.stats,
                                 round_mode='elide'):
        if isinstance(out, symx.Abort):
            res.out_of_bound += 1
            continue
        vals, net = out
        res.nontrivial += 1
        outs = [e[1] for e in net.trace if e[0] == 'out']
        if net.aborted or len(outs) != len(ALLREGS):
            verdict, model = ctx.prove(False)
            what = 'run aborted or output missing: %s' % net.aborted
            cons = []
        else:
            cons = []
            for i, r in enumerate(ALLREGS):
                if r in keep:
                    cons.append((r, symx.eq(outs[i], vals[i + 1])))
            verdict, model = ctx.prove(z3.And(*[c for _, c in cons]))
            what = None
        if verdict == 'unsat':
            res.reached.add('table')
            continue
        if verdict == 'unknown':
            res.inconclusive.append(res.label)
            continue
        res.reached.add('table')
        if what is None:
            for d, c in cons:
                if not z3.is_true(model.eval(c, model_completion=True)):
                    what = 'register %s altered by units %s -> %s' % (d, frm, to)
                    break
        cv = scripth.concrete_values(case, ctx.model_values(model))
        msg = replay_table(case, prog, slots, cv, keep)
        res.violation('%s|%s' % (res.label, scripth._sig_of(what)), '%s\n  replay: %s\n%s' % (what, msg, scripth.text_with_values(case, cv)),
                      inputs={'values': cv}, replayed=msg is not None)
    res.sample({'transition': [frm, to], 'unchanged_registers': sorted(keep)})
    res.functions = world.functions_seen()
    return res


def replay_table(case, prog, slots, cv, keep):
    saved = symx.Ctx.cur
    symx.Ctx.cur = None
    world.uninstall_real_mode()
    try:
        net = scripth.run_vm(case, prog, slots, cv)
        outs = [e[1] for e in net.trace if e[0] == 'out']
        if net.aborted or len(outs) != len(ALLREGS):
            return 'aborted: %s' % net.aborted
        for i, r in enumerate(ALLREGS):
            if r in keep and outs[i] != cv[i + 1]:
                return 'register %s: %r became %r' % (r, cv[i + 1], outs[i])
        return None
    finally:
        world.install_real_mode()
        symx.Ctx.cur = saved


def dispatch(args):
    return table_worker(args) if 'pair' in args else pair_worker(args)


def run(tier, seed):
    t0 = time.time()
    maxlen = 2 if tier == 'quick' else 4
    items = [{'pair': (a, b), 'timeout_ms': 10000} for a in MODES for b in MODES]
    chains = chain_cases(maxlen)
    # cheapest first: chains without rgb are linear
    chains.sort(key=lambda c: (sum(m == 'rgb' for m in c), len(c)))
    items += [{'chain': c, 'timeout_ms': 10000 if tier == 'quick' else 30000, 'max_paths': 3000,
               'budget_s': 40 if tier == 'quick' else 150} for c in chains]
    # the pending delay may be a time-of-day wait: it must survive the switches untouched
    items += [{'chain': c, 'timeat': True, 'timeout_ms': 10000, 'max_paths': 3000, 'budget_s': 40} for c in chains if len(c) <= 3 and 'rgb' not in c[1:-1]]
    # the chain's run is the second run of its Machine; the first one ended in another unit mode
    for before in ('units raw hue 1000 time 5 set "A"', 'hue 20 units rgb red 50 duration 2 set all'):
        items += [{'chain': c, 'before': before, 'timeout_ms': 10000, 'max_paths': 2000, 'budget_s': 30 if tier == 'quick' else 120}
                  for c in chains if c[0] == 'logical' and len(c) <= 2]
    items += [{'chain': (a, b), 'loop': True, 'timeout_ms': 10000, 'max_paths': 2000, 'budget_s': 30 if tier == 'quick' else 120} for a in MODES for b in MODES if a != b]
    # the other command kinds (zone, group, location, all, and-list, matrix cell): single switches (quick), chains of two (thorough)
    # (chain by chain, so that a budget cut on a busy machine loses the last chains of every kind rather than whole kinds)
    for c in chains:
        if len(c) <= (2 if tier == 'quick' else 3):
            items += [{'chain': c, 'tail': tail, 'timeout_ms': 10000, 'max_paths': 2000, 'budget_s': 30 if tier == 'quick' else 120}
                      for tail in TAILS if tail != 'light']
    results, skipped = report.run_pool(dispatch, items, budget_s=common.tier_budget(tier, 80, 1000))
    return report.finish(
        PROP, tier, seed, 'exploration', results, skipped,
        rule='work item = one chain of unit switches (all chains up to the length bound from each start mode) run twice on the '
             'same symbolic registers (with and without the switches), or one (from,to) transition for the rewritten-registers table; '
             'every feasible path pair is compared by one z3 query',
        assumptions=common.SCRIPT_ASSUMPTIONS[:3] + [
            'chains involving rgb run in round-elision mode: round() is the identity and the unrounded transmitted values must agree to 1/4, '
            'which implies integers within one raw unit for up to 3 roundings; paths with more elided roundings are reported inconclusive',
            'registers range over the documented valid ranges: hue 0..360, percentages 0..100, raw 0..65535, times 0..1e6 s'],
        bounds={'chain_length': maxlen, 'chains': len(chains)},
        t0=t0, technique='relational bounded symbolic execution (two runs of the real VM on shared symbolic registers), z3 LRA/NRA')


def replay(v):
    print(v['message'])
    return 0
