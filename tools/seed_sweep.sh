#!/bin/bash
# Runs every quick check with several seeds on the unchanged tree (evidence redirected) to flush out
# seed-dependent false alarms.  usage: tools/seed_sweep.sh "2 3 4"
cd "$(dirname "$0")/.."
export VERIF_OUT=/tmp/sweep
mkdir -p $VERIF_OUT
for seed in ${1:-2 3 4}; do
  for c in C01 C02 C03 C04 C05 C06 C07 C08 C09 C10 C11 C12 C13 C14 C15 C16 C17 C18 C19 C20; do
    VERIF_SEED=$seed ./check $c --tier quick > $VERIF_OUT/out_${c}_$seed.txt 2>&1
    echo "seed=$seed $c rc=$? $(tail -1 $VERIF_OUT/out_${c}_$seed.txt | cut -c1-150)"
  done
done
