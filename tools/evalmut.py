#!/usr/bin/env python3
"""Evaluate a seeded change: confirm it (applies, suite still passes, demo fails with / passes without),
run the owning check (and optionally others) against a scratch worktree, record what happened.

  tools/evalmut.py <Cxx> <a|b> [--checks C01,C05 | --all]
Reads /tmp/seed/<Cxx>/<a|b>.{diff,_demo.py,md}; writes /verif/seeded/<Cxx>-<a|b>/ when confirmed.
"""
import json, os, re, shutil, subprocess, sys, time

SEED = '/tmp/seed'
SUITE = ['/venv/bin/python', '-m', 'pytest', '-q', '-p', 'no:cacheprovider', '--timeout=900', '--continue-on-collection-errors']


def sh(cmd, cwd=None, env=None, timeout=3000):
    e = dict(os.environ)
    e.update(env or {})
    p = subprocess.run(cmd, cwd=cwd, env=e, capture_output=True, text=True, timeout=timeout)
    return p.returncode, p.stdout + p.stderr


def main():
    pid, which = sys.argv[1], sys.argv[2]
    global SEED
    rnd = ''
    if '--round' in sys.argv:
        rnd = 'r' + sys.argv[sys.argv.index('--round') + 1]
        SEED = '/tmp/seed' + rnd[1:]
    checks = [pid]
    if '--all' in sys.argv:
        checks = ['C%02d' % i for i in range(1, 21)]
    elif '--checks' in sys.argv:
        checks = sys.argv[sys.argv.index('--checks') + 1].split(',')
    diff = '%s/%s/%s.diff' % (SEED, pid, which)
    demo = '%s/%s/%s_demo.py' % (SEED, pid, which)
    note = '%s/%s/%s.md' % (SEED, pid, which)
    wt = '/tmp/mut/wt-%s-%s%s' % (pid, rnd, which)
    out = '/tmp/mut/out-%s-%s%s' % (pid, rnd, which)
    os.makedirs('/tmp/mut', exist_ok=True)
    sh(['git', '-C', '/repo', 'worktree', 'remove', '--force', wt])
    shutil.rmtree(out, ignore_errors=True)
    rc, o = sh(['git', '-C', '/repo', 'worktree', 'add', '--detach', wt, 'HEAD'])
    assert rc == 0, o
    result = {'property': pid, 'change': rnd + which, 'seed_dir': SEED, 'repo_head': sh(['git', '-C', '/repo', 'rev-parse', '--short', 'HEAD'])[1].strip()}
    try:
        rc, o = sh(['git', '-C', wt, 'apply', diff])
        result['applies'] = rc == 0
        if rc != 0:
            result['error'] = o[-500:]
            return result
        rc, o = sh(SUITE, cwd=wt, env={'PYTHONPATH': wt})
        m = re.search(r'(\d+) passed', o)
        result['suite_passed'] = int(m.group(1)) if m else 0
        result['suite_tail'] = o.strip().splitlines()[-1]
        rc0, o0 = sh(['/venv/bin/python', demo, '/repo'], env={'PYTHONPATH': '/repo'})
        rc1, o1 = sh(['/venv/bin/python', demo, wt], env={'PYTHONPATH': wt})
        result['demo_exit_unchanged'] = rc0
        result['demo_exit_with_change'] = rc1
        result['demo_output_with_change'] = o1.strip()[-400:]
        result['confirmed'] = result['suite_passed'] == 186 and rc0 == 0 and rc1 != 0
        result['checks'] = {}
        for c in checks:
            t = time.time()
            home = os.environ.get('VERIF_HOME', '/verif')        # a frozen snapshot of /verif while the checks are being edited
            rc, o = sh([home + '/check', c, '--tier', 'quick'], cwd=home, env={'VERIF_REPO': wt, 'VERIF_OUT': out})
            lines = [l for l in o.splitlines() if l.startswith(('VIOLATION', 'HARNESS-ERROR', 'KNOWN'))]
            first = ''
            ol = o.splitlines()
            for i, l in enumerate(ol):
                if l.startswith('VIOLATION'):
                    first = ' | '.join(x.strip() for x in ol[i + 1:i + 3])
                    break
            result['checks'][c] = {'exit': rc, 'violations': len([l for l in lines if l.startswith('VIOLATION')]),
                                   'harness_errors': len([l for l in lines if l.startswith('HARNESS')]), 'first': first[:300],
                                   'wall_s': round(time.time() - t, 1)}
        return result
    finally:
        sh(['git', '-C', '/repo', 'worktree', 'remove', '--force', wt])
        shutil.rmtree(out, ignore_errors=True)
        with open('/tmp/mut/result-%s-%s%s.json' % (pid, rnd, which), 'w') as f:
            json.dump(result, f, indent=1)
        print(json.dumps(result, indent=1))


if __name__ == '__main__':
    main()
