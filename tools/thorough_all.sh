#!/bin/bash
# runs every thorough tier once, sequentially, recording exit code and wall time
export VERIF_PROCS=${VERIF_PROCS:-10}
LIST="$*"
[ -z "$LIST" ] && LIST="C19 C10 C13 C02 C12 C14 C06 C16 C20 C11 C18 C07 C15 C03 C04 C05 C17 C01 C08 C09"
for c in $LIST; do
  s=$(date +%s)
  ./check $c --tier thorough > out_$c.txt 2>&1
  rc=$?
  e=$(date +%s)
  echo "$c rc=$rc wall=$((e-s))s $(tail -1 out_$c.txt | cut -c1-200)"
done
