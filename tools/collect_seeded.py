#!/usr/bin/env python3
"""Copies confirmed seeded changes from /tmp/seed + /tmp/mut results into /verif/seeded/<id>-<x>/ and prints the catch table."""
import glob, json, os, re, shutil

rows = []
for f in sorted(glob.glob('/tmp/mut/result-*.json')):
    d = json.load(open(f))
    pid, w = d['property'], d['change']
    sd = d.get('seed_dir', '/tmp/seed')
    fw = w[-1]
    if not d.get('confirmed'):
        rows.append((pid, w, 'NOT CONFIRMED', '', ''))
        continue
    dst = '/verif/seeded/%s-%s' % (pid, w)
    os.makedirs(dst, exist_ok=True)
    shutil.copy('%s/%s/%s.diff' % (sd, pid, fw), dst + '/patch.diff')
    shutil.copy('%s/%s/%s_demo.py' % (sd, pid, fw), dst + '/demo.py')
    note = open('%s/%s/%s.md' % (sd, pid, fw)).read()
    caught = {c: v for c, v in d['checks'].items() if v['exit'] == 1}
    meta = {
        'property': pid, 'change': w,
        'author': 'independent sub-agent given only the property text and its own scratch worktree',
        'description_and_what_it_needs_to_manifest': note,
        'confirmed_by': {
            'applies_to_repo_head': d['repo_head'], 'test_suite_passed_with_change': d['suite_passed'],
            'demo_exit_on_unchanged_repo': d['demo_exit_unchanged'], 'demo_exit_with_change': d['demo_exit_with_change'],
            'how': 'tools/evalmut.py: scratch worktree of /repo HEAD, git apply patch.diff, full test suite, demo.py against /repo and against the worktree, '
                   './check <id> --tier quick with VERIF_REPO=<worktree>; worktree removed afterwards'},
        'checks_run': {c: {'exit': v['exit'], 'first_report': v['first']} for c, v in d['checks'].items()},
        'caught_by': sorted(caught),
    }
    json.dump(meta, open(dst + '/meta.json', 'w'), indent=1)
    first = ''
    for c, v in d['checks'].items():
        if v['exit'] == 1:
            first = v['first']
    rows.append((pid, w, ', '.join(sorted(caught)) or 'MISSED (exit %s)' % ','.join(str(v['exit']) for v in d['checks'].values()),
                 re.sub(r'\s+', ' ', note.strip().splitlines()[0] if note.strip() else '')[:110], first[:110]))
print('| seeded change | caught by (quick tier) | what the change is | first report |')
print('|---|---|---|---|')
for r in rows:
    print('| %s-%s | %s | %s | %s |' % (r[0], r[1], r[2], r[3].replace('|', '/'), r[4].replace('|', '/')))
