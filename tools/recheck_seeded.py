#!/usr/bin/env python3
"""Re-runs the owning check's quick tier against every kept seeded change (patch applied in a scratch worktree of the
current /repo HEAD; nothing else is repeated: suite and demonstration were confirmed when the change was kept).
usage: tools/recheck_seeded.py OUTDIR [K N]   -- handles every N-th directory starting at K (for parallel streams)"""
import json
import os
import subprocess
import sys
import time

HERE = os.path.dirname(os.path.dirname(os.path.abspath(__file__)))


def main():
    out = sys.argv[1]
    k, n = (int(sys.argv[2]), int(sys.argv[3])) if len(sys.argv) > 3 else (0, 1)
    os.makedirs(out, exist_ok=True)
    names = sorted(os.listdir(os.path.join(HERE, 'seeded')))
    # round-robin over the properties, so that a partial run covers all of them
    names.sort(key=lambda x: (x.split('-', 1)[1], x))
    for i, name in enumerate(names):
        if i % n != k:
            continue
        res = os.path.join(out, name + '.json')
        if os.path.exists(res):
            continue
        prop = name.split('-')[0]
        wt = '/tmp/recheck-wt-%d' % k
        subprocess.run(['git', '-C', '/repo', 'worktree', 'remove', '--force', wt], capture_output=True)
        subprocess.run(['git', '-C', '/repo', 'worktree', 'add', '--detach', wt, 'HEAD', '-q'], check=True, capture_output=True)
        try:
            ap = subprocess.run(['git', '-C', wt, 'apply', os.path.join(HERE, 'seeded', name, 'patch.diff')], capture_output=True, text=True)
            if ap.returncode != 0:
                json.dump({'name': name, 'applies': False, 'error': ap.stderr[-300:]}, open(res, 'w'))
                continue
            env = dict(os.environ, VERIF_REPO=wt, VERIF_OUT='/tmp/recheck-out-%d' % k, PYTHONDONTWRITEBYTECODE='1')
            t = time.time()
            cp = subprocess.run([os.path.join(HERE, 'check'), prop, '--tier', 'quick'], capture_output=True, text=True, env=env, cwd=HERE)
            lines = cp.stdout.splitlines()
            json.dump({'name': name, 'applies': True, 'exit': cp.returncode, 'violations': sum(l.startswith('VIOLATION') for l in lines),
                       'harness_errors': sum(l.startswith('HARNESS-ERROR') for l in lines), 'wall_s': round(time.time() - t, 1),
                       'last': lines[-1][:200] if lines else ''}, open(res, 'w'))
        finally:
            subprocess.run(['git', '-C', '/repo', 'worktree', 'remove', '--force', wt], capture_output=True)
            subprocess.run(['rm', '-rf', '/tmp/recheck-out-%d' % k])
    print('stream', k, 'done')


if __name__ == '__main__':
    main()
