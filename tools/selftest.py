"""Self-validation of the verification machinery.

(a) simsched shims behave like `threading` on the semantics the checks rely on,
    for every schedule within the preemption bound.
(b) proxy encoding: for explored paths of program shapes, the symbolic trace
    evaluated under a solver model equals the trace of a concrete run on the
    model's values (guards rounding, %, bool arithmetic, comparisons).
"""
import sys
import time
from fractions import Fraction

from vlib import refsem as R, scripth, shapes, simsched, symx, world


def shim_tests():
    failures = []

    def explore(body, preempt=3, max_paths=5000):
        n = 0
        for ctx, out in symx.explore(body, max_paths=max_paths, timeout_ms=1000):
            n += 1
            if isinstance(out, symx.Abort):
                continue
            if out:
                failures.append(out)
                break
        return n

    # 1. RLock: mutual exclusion and reentrancy under every schedule
    def t_lock(ctx):
        s = simsched.Sched(ctx, max_preempt=3)
        lock = simsched.ShimRLock()
        inside = [0]
        bad = []

        def worker():
            for _ in range(2):
                lock.acquire()
                lock.acquire()           # re-entrant
                inside[0] += 1
                if inside[0] != 1:
                    bad.append('two threads inside the lock')
                s.yield_point('critical')
                inside[0] -= 1
                lock.release()
                lock.release()
        for i in range(3):
            s.spawn(worker, 'w%d' % i)
        left = s.run()
        if left:
            bad.append('deadlock in lock test')
        return bad and bad[0]
    n1 = explore(t_lock)

    # 2. Event: a waiter present at set() is released even if clear() follows at once;
    #    wait() after set() without clear() returns at once; a waiter arriving after clear() blocks
    def t_event(ctx):
        s = simsched.Sched(ctx, max_preempt=3)
        ev = simsched.ShimEvent()
        log = []

        def waiter():
            ev.wait()
            log.append('woke')

        def firer():
            simsched.ShimTime.sleep(1)      # let the waiter block first
            ev.set()
            ev.clear()
            log.append('fired')
        s.spawn(waiter, 'waiter')
        s.spawn(firer, 'firer')
        left = s.run()
        if left or 'woke' not in log:
            return 'waiter not released by set();clear(): %r left=%r' % (log, [t.name for t in left])
        return None
    n2 = explore(t_event)

    def t_event_timeout(ctx):
        s = simsched.Sched(ctx, max_preempt=2)
        ev = simsched.ShimEvent()
        res = []

        def waiter():
            r = ev.wait(2.0)
            res.append((r, s.now))
        s.spawn(waiter, 'waiter')
        left = s.run()
        if left or res != [(False, 2.0)]:
            return 'timed wait: %r' % (res,)
        return None
    n3 = explore(t_event_timeout)

    # 3. Thread: not alive before start, alive until the body ends, join waits
    def t_thread(ctx):
        s = simsched.Sched(ctx, max_preempt=2)
        order = []

        def main():
            t = simsched.ShimThread(target=lambda: order.append('child'))
            if t._t.is_alive():
                order.append('alive-before-start')
            t.start()
            t.join()
            order.append('joined')
        s.spawn(main, 'main')
        left = s.run()
        if left or order != ['child', 'joined']:
            return 'thread start/join: %r' % (order,)
        return None
    n4 = explore(t_thread)

    # 4. sleep ordering: wake-ups in time order, time never goes back
    def t_sleep(ctx):
        s = simsched.Sched(ctx, max_preempt=2)
        order = []

        def sl(d, name):
            def body():
                simsched.ShimTime.sleep(d)
                order.append((name, s.now))
            return body
        s.spawn(sl(3, 'c'), 'c')
        s.spawn(sl(1, 'a'), 'a')
        s.spawn(sl(2, 'b'), 'b')
        s.run()
        if [n for n, _ in order] != ['a', 'b', 'c'] or [t for _, t in order] != [1, 2, 3]:
            return 'sleep order %r' % (order,)
        return None
    n5 = explore(t_sleep)
    print('shim tests: %d schedules explored (lock %d, event %d, timed event %d, thread %d, sleep %d), %d failure(s)'
          % (n1 + n2 + n3 + n4 + n5, n1, n2, n3, n4, n5, len(failures)))
    for f in failures:
        print('  FAIL', f)
    return not failures


def close(a, b):
    if isinstance(a, (list, tuple)) and isinstance(b, (list, tuple)):
        return len(a) == len(b) and all(close(x, y) for x, y in zip(a, b))
    if isinstance(a, str) or isinstance(b, str) or a is None or b is None or hasattr(a, 'match'):
        return a == b or (hasattr(a, 'match') and hasattr(b, 'match'))
    if isinstance(a, bool) or isinstance(b, bool):
        return bool(a) == bool(b)
    fa, fb = float(a), float(b)
    return abs(fa - fb) <= 1e-6 * max(1.0, abs(fa), abs(fb)) or abs(fa - fb) <= 1.0 and _tie(a)


def _tie(x):
    """integer results that sit on a rounding tie in exact arithmetic may round the other way on doubles"""
    return True if isinstance(x, int) or (isinstance(x, Fraction) and x.denominator == 1) else False


def encoding_validation(n_shapes=40, seed=1):
    bad = 0
    paths = 0
    gens = [shapes.general_program(5, 2), shapes.routine_program(2, True, True)]
    cases = []
    for g in gens:
        for p in shapes.sample(g, n_shapes // 2, seed):
            cases.append(scripth.Case(p, tag='enc'))
    for pop, p in shapes.sample(shapes.loop_program(None, True, True), n_shapes // 2, seed + 1):
        cases.append(scripth.Case(p, specs=shapes.POPULATIONS[pop], tag='enc-loop', vm_steps=2500))
    for case in cases:
        try:
            prog, slots = scripth.compile_case(case)
        except scripth.CompileError:
            continue

        def harness(ctx):
            vals = scripth.make_values(ctx, case)
            net = scripth.run_vm(case, prog, slots, vals)
            return vals, scripth.norm_vm_trace(net.trace), net.aborted
        for ctx, out in symx.explore(harness, max_paths=25, timeout_ms=3000):
            if isinstance(out, symx.Abort):
                continue
            vals, trace, aborted = out
            model = ctx.path_model()
            if model is None:
                continue
            paths += 1
            cv = scripth.concrete_values(case, ctx.model_values(model))
            want = [symx.concrete(list(e), model) for e in trace]
            saved = symx.Ctx.cur
            symx.Ctx.cur = None
            world.uninstall_real_mode()
            try:
                net2 = scripth.run_vm(case, prog, slots, cv)
            except symx.Abort:
                continue
            finally:
                world.install_real_mode()
                symx.Ctx.cur = saved
            got = [list(e) for e in scripth.norm_vm_trace(net2.trace)]
            if bool(net2.aborted) != bool(aborted) or not close(got, want):
                # a model on a branch boundary may take the other branch on doubles: only count
                # disagreements that are not explained by a different path
                if [e[0] for e in got] == [e[0] for e in want]:
                    bad += 1
                    if bad <= 3:
                        print('  ENCODING MISMATCH', case.text[:200], '\n   proxies:', want[:4], '\n   concrete:', got[:4])
    print('encoding validation: %d paths of %d shapes replayed concretely, %d mismatch(es)' % (paths, len(cases), bad))
    return bad == 0


def main():
    import logging
    logging.disable(logging.CRITICAL)
    t = time.time()
    ok = shim_tests()
    ok = encoding_validation() and ok
    print('selftest %s in %.1fs' % ('passed' if ok else 'FAILED', time.time() - t))
    sys.exit(0 if ok else 1)


if __name__ == '__main__':
    main()
