#!/usr/bin/env python3
"""Regenerates /verif/MANIFEST.json from the table below (keeps it schema-valid)."""
import json, os, sys
HERE = os.path.dirname(os.path.dirname(os.path.abspath(__file__)))

SYMX = 'bounded symbolic execution of the real Python code by proxy objects, every branch decided by z3 (symx), counterexamples replayed concretely'
CHECKS = {
 'C01': dict(cat='exploration', tech=SYMX + '; oracle = reference interpreter',
   text='For every program shape of a size-bounded family (core vocabulary exhaustive to 2 statements, full vocabulary to 1, seeded larger shapes incl. rgb units, plus seeded nests of two loop forms with breaks at symbolic positions on five light populations) all feasible paths of the compiled image on the real VM are explored with symbolic literals; on each path one z3 query shows that the device/clock/output trace equals the reference semantics for every value. Bounded in program size, loop counts (<=3) and paths per shape.',
   note='Trusted: z3, the symx proxies, the stub network (vlib/world.py), the reference interpreter (vlib/refsem.py). Floats are exact reals; numeral parsing is outside (C16).', ref='4/C01'),
 'C07': dict(cat='exploration', tech=SYMX + '; exact round-half-even via ToInt, NRA for rgb',
   text='For every unit mode and every command kind that transmits a colour or duration (light, group, location, all, zone, matrix cell, matrix default, power on light/group/location/all, and-lists) the registers are unconstrained symbolic reals (|x|<=1e12) and every feasible path through units.py, param_helper, the VM and the device wrappers is explored; z3 shows that each transmitted number is an integer in protocol range and within 1/2 of the documented formula (clamped). Raw integer pass-through is checked exactly. IEEE part: six clamp-and-round kernels (param_16/32, percent and time scaling, hue scaling on 0<=h<360, ColorMatrix._standardize_raw) run on z3 Float64 proxies: for every double, incl. infinities and NaN, the result is an integer in range and no exception escapes.',
   note='Real arithmetic stands in for IEEE doubles in the conversion chains (only the final clamp-and-round kernels are also done in Float64); rgb exactness only for components in 0..100. Trusted: z3, symx proxies, stub network, spec formulas in vlib/refsem.py.', ref='4/C07'),
 'C14': dict(cat='exploration', tech='relational ' + SYMX + '; round-elision for rgb chains',
   text='Every chain of up to 2 (quick) / 4 (thorough) unit switches from every start mode is executed twice by the real VM on the same symbolic registers (with and without the switches); z3 shows the transmitted colour (as a colour), the duration and the pending delay agree within one raw unit on every path pair, kelvin is unchanged, and for each of the 9 (from,to) transitions exactly the registers outside the documented table keep their values.',
   note='Registers within documented valid ranges. Chains with rgb use round-elision (unrounded values agree to 1/4, implying <=1 unit for <=3 roundings). Real arithmetic for floats.', ref='4/C14'),
 'C03': dict(cat='exploration', tech=SYMX + '; oracle = reference interpreter',
   text='Routine-centred program shapes (parameter sets colliding with global names in every order, assignments to parameters/globals/locals at top level, inside if and inside repeat, nested, recursive and argument-position calls, returns from depth 0..2; plus, exhaustively, return from every nest of counted/light-iteration loops at a symbolic position with the call made from a light loop, a counted loop, an expression operand, an argument or a statement) are run on the real VM with symbolic arguments and globals; every variable of interest is printed before, inside and after each call and z3 shows the printed values equal the reference scoping semantics on every feasible path.',
   note='Seeded selection from the grammar in vlib/shapes.py:routine_program (size bound 1..3 quick, ..5 thorough); recursion depth 0..3. Trusted: z3, symx, refsem scoping rules written from docs/language.rst.', ref='4/C03'),
 'C04': dict(cat='exploration', tech=SYMX + '; oracle = reference interpreter',
   text='Each of the 20 loop forms alone (exhaustive over populations and break positions) and seeded nestings of two forms (optionally inside a routine) run on the real VM with symbolic counts (0..3 outer, 0..2 inner), symbolic from/to bounds and cycle starts, on 5 light populations; z3 shows the sequence of loop-variable values, light names and commands equals the documented one on every feasible path.',
   note='Bounded counts and nesting depth 2; populations of 0..4 plain lights over 2 groups x 2 locations. Real arithmetic for the interpolation.', ref='4/C04'),
 'C05': dict(cat='exploration', tech='static instruction-graph checks + ' + SYMX + ' with a control-flow monitor',
   text='Per program shape (routine definitions at every top-level position and inside if/else/repeat/while bodies, exhaustively from a small grammar; plus seeded general, routine and loop shapes): statically, for every JUMP of the loaded image, target in range, in the same routine/main segment, never a routine header, and the same instruction object as in the parser listing (loader invariance), every JSR names a loaded routine; dynamically, on every feasible path with symbolic conditions, pc is inside a routine body exactly while that routine is active, and at exit the call stack is at the root frame, the evaluation stack is empty and pc is at the end.',
   note='Static part is all-paths by construction; dynamic part bounded by loop counts <=3 and paths per shape. Reads Machine internals (_reg.pc, _call_stack, _vm_math._eval_stack) from the harness process.', ref='4/C05'),
 'C15': dict(cat='exploration', tech=SYMX + '; oracle = reference interpreter',
   text='Seeded addressing programs (zone ranges; inline row/column in either order; begin/stage/end blocks with up to 3 stages or a staging loop; optional saved default; logical/raw/rgb units; bounds as symbolic literals, variables, expressions, loop indices) on matrices 3x3, 2x4, 1x1 (thorough: 6x5, 4x2): the single tile message per set and the zone message are compared cell by cell and component by component with the reference semantics on every feasible path; for the one-line form the coloured cells must equal, exactly, what a plain set of the same registers transmits in the same run.',
   note='Bounds within the device size; <=3 stages; 8 zones. Cell colours use the same nearest-integer rule as C07.', ref='4/C15'),
 'C18': dict(cat='exploration', tech=SYMX + '; symbolic numbers carried through generated text by a format hook',
   text='For each population (plain, multizone, matrix and mixes, names with spaces/punctuation/keywords) every raw component of every light, zone and cell at capture time and at replay time is a symbolic integer 0..65535 and power a choice; the text produced by the real ScriptSnapshot is compiled by the real parser and executed by the real VM, and z3 shows the resulting device state equals the captured state component-wise.',
   note='<=4 lights, matrices <=2x2 quick / 6x5 thorough, <=8 zones; light names from a fixed pool (string-level claim: C16).', ref='4/C18'),
 'C19': dict(cat='exploration', tech=SYMX + ' (symbolic control flow); byte-exact stdout comparison',
   text='Seeded programs of 2..5 print/println/printf statements (values of every kind; anonymous, numbered, named, spec and escaped fields) wrapped in if/else and loops with symbolic conditions and interleaved with device commands run with the production output binding and a recording sys.stdout; on every feasible path the bytes written and their order relative to device commands equal what Python str/str.format produce under the documented rules.',
   note='Printed values are concrete (text is the observable); the solver only decides control flow. Trailing line break at end of output accepted either way; printf always followed by println in generated programs.', ref='4/C19'),
 'C02': dict(cat='exploration', tech='symbolic execution of the real lexer/parser/VM with uninterpreted operators (z3 EUF: parse-tree identity) and z3 reals/ints for operator arithmetic; quantified reachability query for random',
   text='(a) every expression with up to 3 binary operators (14 operators, optional parentheses and unary minus; all six value positions for <=2 operators) and seeded 4-operator ones is compiled and evaluated by the real code on opaque operands whose operators are uninterpreted functions; z3 shows the result term equals the documented precedence/associativity parse under every interpretation, and that if/while branch on its truth. (b) each operator, unary minus, numbers-as-truth, every value position and round/trunc/floor/ceil/cycle on symbolic numbers equal the ordinary values. (c) [random a b] with the random source stubbed to its documented contract: a<=n<=b and every such n reachable.',
   note='Operators per expression bounded (3 exhaustive, 4/5 seeded); ^ exponents 0..4 concrete; transcendental built-ins outside. Comparisons are normalised by Python reflection equivalences (x>y == y<x).', ref='4/C02'),
 'C11': dict(cat='exploration', tech='z3 regex equivalence for the pattern syntax; symbolic execution of TimePattern.match on symbolic hour/minute (z3 LIA) against a denotation formula',
   text='(1) z3 regex lemma: the implementation pattern regex accepts exactly the documented H:M shapes among whitespace-free strings up to length 8. (2) For well-formed patterns (all 15851 in thorough; every hour and minute field plus 1500 seeded patterns in quick) compile-time acceptance (literal and via macro) holds iff the pattern denotes some time, and match(h,m), executed on symbolic h and m, equals the positional denotation formula for all 1440 times at once. (3) Alternative lists (pairs/triples over a reduced alphabet) compiled and run on the real VM wait for exactly the OR of the listed patterns. (4) Patterns reused in loops, macros and variables keep their denotation.',
   note='Pattern text is concrete per work unit; hour/minute are solver variables. Set-valued state of TimePattern is wrapped in symbolic-membership views (falls back to the concrete 24x60 table if an implementation keeps no sets).', ref='4/C11'),
 'C13': dict(cat='exploration', tech=SYMX + ' (symbolic ages and list elements, choice variables for populations)',
   text='Inductive step over the real LightSet: from the directory of an arbitrary population (all 125 over 3 names x 2 groups x 2 locations; thorough adds 4 names) one discover of an arbitrary new population / failed discover / refresh with expiry after a symbolic time advance; the public getters must equal a model (sorted duplicate-free names, each light in exactly its last reported group and location, sorted non-empty member lists, exactly the lights older than the limit expired). Independent explicit histories of 6/12 steps. SortedList first/last/next/prev/has/add/remove on 0..4 symbolic ordered elements with a symbolic probe, and next()-iteration under arbitrary interleaved removals.',
   note='Every invariant-satisfying directory is reachable by one discover from empty, so the step covers histories of any length provided the invariant check is complete for the public getters. time.time in controller.light is stubbed.', ref='4/C13'),
 'C12': dict(cat='fault_enumeration', tech='fault enumeration by symbolic choice variables over the real retry/VM/LightSet code (symx), z3 for colour values',
   text='Six scripts (plain sequence, group/location fan-out, zone, matrix, broadcast, light loop) with symbolic colours run with every fail/succeed vector for the requests to one faulty device (up to 4 consecutive failures per request): the script reaches its end, no request is tried more than 3 times, and the commands reaching all other devices equal the fault-free run on the same values (z3); every fault vector and every replay runs in a freshly forked process so that state kept at module or class level cannot leak between them; thorough adds every other single faulty device and four pairs. Twelve unknown-name and capability-mismatch commands between ordinary commands: only the ordinary commands arrive. Discovery with each of plain/multizone/matrix/LAN faulty at every construction-time request: never raises, False leaves the directory unchanged, True yields lights a script can address with every command kind.',
   note='Not answering = lifxlan raises WorkflowException; LAN broadcasts (fire-and-forget) are not made to fail.', ref='4/C12'),
 'C10': dict(cat='exploration', tech=SYMX + ' with time as a symbolic variable (z3 LRA)',
   text='Every sequence of up to 3 (quick) / 4 (thorough) statements (timed delay, zero delay, time-of-day wait) runs on the real Clock with symbolic start instant, delay values, work before each statement, tick length and tick phase; z3 shows on every path that the k-th delay never ends before origin + sum of delays, ends within one tick when the script was not late, returns at once without accumulating lateness when late, that a zero delay never blocks, and that the time line restarts at the return of a time-of-day wait. Five scripts on the real VM bound to the real Clock (logical and raw units, and-lists, loops, unit switch) with symbolic time registers and transmission times: every command is sent within the window its delays allow.',
   note='Symbolic part: clock thread modelled sequentially (Event.wait returns at the next tick or times out); at most 4 (6) waits per delay. Interleaving part: concrete delays. time/threading/datetime in bardolph.lib.clock are stubs.', ref='4/C10'),
 'C06': dict(cat='exploration', tech='symbolic token stream (lazy choice variables, depth-first exhaustive) through the real parser, loader and VM; z3 regex lemma for lexer totality',
   text='After a fixed preamble (macro, string macro, variable, function, routine) every sequence of 3 tokens (quick; 5 in thorough, plus 1200 seeded 4-token families in quick) over a 92-word alphabet (all keywords, registers, names, literals, time patterns, operators/brackets, comment, garbage, internal token-class names, case variants) is compiled: no exception, accept or rejection with a line-numbered message, no acceptance before all tokens are read, accepted programs load and run without an internal fault. 30 documented rule breakers in 4 contexts are rejected and leave the job without a program. Token deletion/duplication/swap/truncation/replacement at every position of 12 valid scripts. z3 lemma: every non-blank ASCII string is covered by the lexer\'s last alternative.',
   note='Tokens are drawn lazily (one path covers all continuations after the parser stops reading). Script-level run-time errors (division by zero, type confusion of script values) are not counted as internal faults. Inputs longer than the bound and non-ASCII bytes are outside.', ref='4/C06'),
 'C16': dict(cat='exploration', tech='z3 regular-expression queries over the lexer\'s own regexes (rx2z3), witnesses replayed through the real lexer/compiler/VM; choice-variable layouts; symbolic values for brace equivalence',
   text='z3 regex lemmas on the live lexer regexes (no earlier alternative can match at the start of an identifier; every quote-free content up to 8 chars is in the string language; every NUMBER text converts); every ASCII character other than quote and line breaks inside a string through the real lexer. Solver-enumerated identifiers up to 8 chars in the region table look-ups can affect (case variants of all words in the lexer tables, minus documented reserved words) and solver witnesses outside it are used as variable, macro, parameter and routine names in compiled and executed scripts. Re-layout of 10 scripts: every token adjacency with every separator (incl. comments and no space next to operators/braces/brackets), seeded whole layouts and abbreviations give the identical instruction listing; call brackets identical listing; braces round one value same behaviour for all (symbolic) values in 9 positions.',
   note='ASCII; identifier length <= 8. Known finding: a string ending in a backslash followed by another quote on the same line (conflicts with the tested \\" escape). The classification structure (tables then regex cascade) is read from the code; witnesses guard it.', ref='4/C16'),
 'C17': dict(cat='exploration', tech='history exploration by choice variables over the real compiler and ScriptJob/Machine objects; second-run traces compared with fresh runs by z3 on symbolic literals (symx)',
   text='Compile histories: every ordered pair and seeded triples/quadruples from a pool of 13 valid and 17 invalid texts (rejected inside a loop, routine, matrix block, if; texts relying on names other texts define) on one Parser and one ScriptJob give the verdict, messages and listing of a fresh compiler. Executions: a ScriptJob with symbolic literals run after a first execution that was complete or stopped before VM step k (choice variable) produces the trace of a fresh complete run for all values and leaves the compiled program, including time-pattern denotations, unchanged; every ordered pair of 7 jobs in one process (job 1 complete or stopped at step k; recording and production output bindings): job 2 behaves as when run alone.',
   note='History length <= 4; stop positions every 3rd-5th VM step up to 40 (quick) / every step (thorough). Device state is reset between executions. Clock hand-over between runs is C09.', ref='4/C17'),
 'C20': dict(cat='exploration', tech='bounded exploration of manifests and request histories as choice variables (symx, depth-first in seeded order) through the real WebApp/FrontEnd/JobControl code',
   text='Manifests of 1..2 (thorough 3) entries (file name, optional path, optional title, colours, background flag from pools with HTML metacharacters, path separators, .ls variants, duplicates) and histories of up to 4 (5) requests (listed path, unlisted path, stop/<path>, stop-current, stop-all, status, capture, index) interleaved with job completions: jobs are created only for listed paths, from the listed file, queued or spawned as marked, never twice while reported running; every manifest string in a page context equals html.escape(original) exactly once; default path/title derivation; stop routes reach exactly their targets and stop-all empties the queue; status and capture render.',
   note='flask replaced by a recording stub (no Jinja/routing), ScriptJob by a recording job, job threads completed on demand. Strings come from pools (no symbolic strings); histories beyond the path cap are not explored.', ref='4/C20'),
 'C08': dict(cat='exploration', tech='systematic schedule exploration (choice variables with a preemption bound, depth-first via symx) of the real threaded controller code under baton-passing threading shims',
   text='Eight client scenarios (1..3 client threads issuing add/insert/spawn and status probes; 1..4 jobs; job bodies finishing or raising as a choice variable) run the real JobControl/Agent code under a deterministic scheduler whose decision at every lock/thread operation and every read or write of _queue/_active_agent/_background is a choice variable; every schedule with at most 2 (quick) / 3 (thorough) preemptions is executed and checked for exclusion, head-of-queue start order, exactly-once start, no escaping exception, no deadlock, a drained controller and background bookkeeping.',
   note='Pure scheduling: the solver engine only enumerates feasible choice vectors. Lock waits never time out; single deque/dict operations are atomic; more threads/jobs/preemptions are outside.', ref='4/C08'),
 'C09': dict(cat='exploration', tech='systematic schedule exploration (choice variables with a preemption bound, depth-first via symx) of the real JobControl/ScriptJob/Machine/Clock threads under baton-passing shims with discrete-event virtual time',
   text='Five script shapes (straight-line, infinite repeat, timed, time-of-day, long delay) x four stop APIs (stop_job, stop_current, stop-all as the web server does it, stop_background), optionally with another job queued behind or a job started after the stop: the real JobControl, Agent, ScriptJob, Machine and Clock (clock thread included) run under the deterministic scheduler; the requester lets 0..2 ticks pass and every switch at lock/thread/event/sleep operations and at accesses of Machine._keep_running, Clock._keep_going, JobControl._active_agent is a choice, within 2 (quick) / 3 (thorough) preemptions. On every schedule the stopped job ends, at most one further command is sent, the next queued job completes (or nothing starts after stop-all), a job started afterwards sends all its commands with its delay honoured, and no exception escapes. A further scenario aims the stop at the job queued behind and keeps asking while the predecessor hands over.',
   note='Discrete-event time (sleep and network requests block, time moves when all threads are blocked); a fairness rule hands over from a thread that spins 40 steps; lock waits never time out. More preemptions and longer scripts are outside.', ref='4/C09'),
}
PENDING = {
}
# sentences added as the checks were strengthened (appended to the level text)
EXTRA = {
 'C01': ' Also: every sequence of up to 3 unit switches between setting time/duration and a command (exhaustive), and return from inside one or two nested loops with the caller\'s loop pending.',
 'C04': ' Populations include a mixed-case one (code-point order); a return-from-loops family checks that leaving nested light loops by return discards exactly their pending names.',
 'C07': ' IEEE part: six clamp-and-round kernels of units.py/color_matrix.py run on z3 Float64 proxies over every double (incl. NaN, infinities): result is an integer in range. Paths the proxies cannot follow (math.fmod, colorsys) are decided by concrete runs on solver models of each region of the path condition.',
 'C08': ' Job bodies return, raise an Exception or end through a BaseException (sys.exit) as a choice; clear_queue is one of the client operations.',
 'C09': ' Stop APIs include the real WebApp.stop_all (flask stubbed) with queued and background-only jobs and a stop issued while the predecessor job is finishing (stop_next). Schedules are explored by iterative context bounding (0, 1, 2(, 3) preemptions).',
 'C10': ' Event.wait(timeout) is modelled with its time-out (tick length up to 10 s; a wait returns False when no tick falls inside it). Additionally the real clock thread runs under the deterministic scheduler (concrete delays, ticks 0.1/0.25/1.5 s, <= 2/3 preemptions).',
 'C11': ' (5) the real Clock.wait_until on compiled patterns with datetime.now() a stub returning arbitrary non-decreasing instants (symbolic minute of the day, 0..2 minutes between readings): the wait ends only on a time the clock showed and the list denotes.',
 'C12': ' One script reads the colour of the faulty light (get) and uses the registers afterwards. Every path runs in a forked child (retry counters are process-level state).',
 'C13': ' The VM\'s discovery instructions (disc/dnext over lights, groups, locations; discm/dnextm over members; both directions) run with an arbitrary new discovery or expiry between any two steps: no exception, each step yields the nearest name listed at that moment, every remaining name is visited once, the iteration ends.',
 'C17': ' Re-run jobs include scripts with time-pattern alternatives; the compiled program is compared including pattern denotations.',
 'C18': ' Names also contain backslashes and str.format/percent metacharacters on all three device kinds; an exception while capturing is a violation.',
 'C19': ' String values include backslashes, embedded \\n and escaped double quotes at either end.',
}
ALL = ['C%02d' % i for i in range(1, 21)]


def main():
    checks = []
    for pid in ALL:
        if pid not in CHECKS:
            continue
        c = CHECKS[pid]
        checks.append({
            'property_id': pid,
            'quick_cmd': './check %s --tier quick' % pid,
            'thorough_cmd': './check %s --tier thorough' % pid,
            'evidence_file': 'evidence/%s.json' % pid,
            'replay_cmd_template': './check %s --replay {path}' % pid,
            'engine': 'symx',
            'level_claimed': {'category': c['cat'], 'text': c['text'] + EXTRA.get(pid, ''), 'design_ref': 'DESIGN.md sect. ' + c['ref']},
            'level_note': c['note'],
            'technique': c['tech'],
        })
    na = [{'property_id': p, 'reason': PENDING.get(p, 'check not built yet in this session (design in DESIGN.md sect. 4); not claimed until it runs clean')}
          for p in ALL if p not in CHECKS]
    man = {
        'version': 1,
        'setup_cmd': './setup.sh',
        'hooks': {'guard': 'BARDOLPH_VERIF', 'enable': 'none needed: all instrumentation is done from the harness process (module-name rebinding, instance attributes); the guard name is reserved',
                  'baseline_off_cmd': 'cd /repo && /venv/bin/python -m pytest -ra -q -p no:cacheprovider --timeout=900 --continue-on-collection-errors',
                  'source_commits': [], 'add_only': True},
        'engines': [
            {'name': 'symx', 'path': 'vlib/symx.py', 'serves_properties': sorted(CHECKS), 'kind_free_text': 'proxy-object symbolic executor over z3 Real/Int/Bool with DFS path exploration and concrete replay'},
            {'name': 'refsem', 'path': 'vlib/refsem.py', 'serves_properties': [p for p in ('C01', 'C03', 'C04', 'C05', 'C15', 'C18', 'C19') if p in CHECKS], 'kind_free_text': 'reference interpreter of the script language (oracle)'},
            {'name': 'simsched', 'path': 'vlib/simsched.py', 'serves_properties': ['C08', 'C09', 'C10'], 'kind_free_text': 'baton-passing shims for threading/time: every thread switch at a shim operation or traced shared field is a symx choice variable; preemption bound, discrete-event virtual time'},
            {'name': 'rx2z3', 'path': 'vlib/rx2z3.py', 'serves_properties': ['C06', 'C11', 'C16'], 'kind_free_text': 'translator from the live lexer/time-pattern regular expressions (re._parser op trees) to z3 regular-expression terms'},
            {'name': 'ufterm', 'path': 'vlib/ufterm.py', 'serves_properties': ['C02'], 'kind_free_text': 'uninterpreted-function operand terms (z3 EUF) for parse-tree identity'},
            {'name': 'symfp', 'path': 'vlib/symfp.py', 'serves_properties': ['C07'], 'kind_free_text': 'proxy objects over z3 Float64 (round-to-nearest-even) for IEEE range lemmas on the real clamp-and-round kernels'},
        ],
        'checks': checks,
        'not_applicable': na,
        'notes': 'All checks: ./check <id> [--tier quick|thorough]; exit 0/1/3 (3 = harness error). known_findings.json lists genuine defects (fixed ones suppress nothing).',
    }
    with open(os.path.join(HERE, 'MANIFEST.json'), 'w') as f:
        json.dump(man, f, indent=1)
    try:
        import jsonschema
        jsonschema.validate(man, json.load(open('/root/.vp/MANIFEST.schema.json')))
        print('MANIFEST.json valid,', len(checks), 'checks,', len(na), 'not applicable')
    except ImportError:
        print('written (jsonschema not available to validate)')


if __name__ == '__main__':
    main()
