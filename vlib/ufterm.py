"""Opaque terms for the structure check of C02: every binary operator is an
uninterpreted z3 function, truthiness is an uninterpreted predicate.  Two
expression evaluations that yield equal terms under *every* interpretation of
the operators have the same parse tree."""
import numbers

import z3

from . import symx

T = z3.DeclareSort('T')
OPS = ['+', '-', '*', '/', '%', '^', '<', '<=', '>', '>=', '==', '!=', 'and', 'or']
_NAMES = {'+': 'add', '-': 'sub', '*': 'mul', '/': 'div', '%': 'mod', '^': 'pow', '<': 'lt', '<=': 'le',
          '>': 'gt', '>=': 'ge', '==': 'eq', '!=': 'ne', 'and': 'and', 'or': 'or'}
UF = {op: z3.Function('f_' + _NAMES[op], T, T, T) for op in OPS}
TRUTHY = z3.Function('truthy', T, z3.BoolSort())
OFBOOL = z3.Function('ofbool', z3.BoolSort(), T)
OFINT = z3.Function('ofint', z3.IntSort(), T)
OFREAL = z3.Function('ofreal', z3.RealSort(), T)


def app(op, a, b):
    """Operator application with Python's own reflection equivalences built in:
    x > y is y < x, x >= y is y <= x, == and != are symmetric (Python evaluates
    `True <= t` as `t >= True` when the left operand is a plain bool)."""
    if op == '>':
        op, a, b = '<', b, a
    elif op == '>=':
        op, a, b = '<=', b, a
    elif op in ('==', '!=') and str(a) > str(b):
        a, b = b, a
    return UF[op](a, b)


def lift(x):
    if isinstance(x, Term):
        return x.e
    if isinstance(x, symx.SymBool):
        return OFBOOL(x.b)
    if isinstance(x, bool):
        return OFBOOL(z3.BoolVal(x))
    if isinstance(x, int):
        return OFINT(z3.IntVal(x))
    if isinstance(x, float):
        return OFREAL(z3.RealVal(repr(x)))
    raise TypeError(type(x))


class Term:
    __slots__ = ('e',)

    def __init__(self, e):
        self.e = e

    def _b(s, o, op, sw=False):
        try:
            oe = lift(o)
        except TypeError:
            return NotImplemented
        a, b = (oe, s.e) if sw else (s.e, oe)
        return Term(app(op, a, b))
    __add__ = lambda s, o: s._b(o, '+')
    __radd__ = lambda s, o: s._b(o, '+', True)
    __sub__ = lambda s, o: s._b(o, '-')
    __rsub__ = lambda s, o: s._b(o, '-', True)
    __mul__ = lambda s, o: s._b(o, '*')
    __rmul__ = lambda s, o: s._b(o, '*', True)
    __truediv__ = lambda s, o: s._b(o, '/')
    __rtruediv__ = lambda s, o: s._b(o, '/', True)
    __mod__ = lambda s, o: s._b(o, '%')
    __rmod__ = lambda s, o: s._b(o, '%', True)
    __pow__ = lambda s, o: s._b(o, '^')
    __rpow__ = lambda s, o: s._b(o, '^', True)
    __lt__ = lambda s, o: s._b(o, '<')
    __le__ = lambda s, o: s._b(o, '<=')
    __gt__ = lambda s, o: s._b(o, '>')
    __ge__ = lambda s, o: s._b(o, '>=')
    __eq__ = lambda s, o: s._b(o, '==')
    __ne__ = lambda s, o: s._b(o, '!=')
    __hash__ = None

    def __neg__(s):
        # the compiler turns unary minus into "* -1"; a direct negation is the same term
        return Term(UF['*'](s.e, OFINT(z3.IntVal(-1))))

    def __bool__(s):
        return symx.Ctx.cur.decide(TRUTHY(s.e))

    def __repr__(s):
        return 'Term(%s)' % s.e


numbers.Number.register(Term)
