"""Simulated environment for the real bardolph code.

Everything *below* bardolph's own wrappers is a stub:
  * lifxlan device objects (StubDevice) and the LifxLAN object (StubLan),
  * the clock bound to i_lib.Clock (RecClock: records pause_for / wait_until),
  * the output sink (RecOutput), unless a check binds the production one,
  * logging (captured, so that "Machine stopped due to ..." is observable).
The *real* lifx_lan_light.Light/MultizoneLight/MatrixLight, LifxLanApi and
LightSet sit on top of the stubs, so the observation point is "arguments
arriving at the lifxlan device objects".
"""
import logging
import sys

from lifxlan.errors import WorkflowException
from lifxlan.msgtypes import (GetDeviceChain, GetTileState64, SetTileState64,
                              StateDeviceChain, StateTileState64)

from bardolph.controller import i_controller, lifx_lan_api, light_set
from bardolph.controller import units as units_mod
from bardolph.lib import i_lib, injection, settings
from bardolph.runtime import runtime_module

from . import symx


class Net:
    """The simulated network: event trace, fault plan, log capture."""

    def __init__(self):
        self.trace = []          # device-level events, in order
        self.requests = []       # every attempt (incl. failed ones): (dev, op)
        self.fault = None        # callable(dev_label, op, attempt_index) -> bool (raise?)
        self.attempts = {}       # (dev, op, seq) bookkeeping for the fault plan
        self.log = []            # (levelname, message)
        self.aborted = None      # message of "Machine stopped due to ..." if seen
        self.devices = []
        self.req_seq = 0

    def request(self, dev, op):
        """Called at the start of every network request.  May raise."""
        self.req_seq += 1
        self.requests.append((dev.label, op))
        if self.fault is not None and self.fault(dev.label, op, self.req_seq):
            raise WorkflowException('simulated: no answer from %s for %s' % (dev.label, op))

    def ev(self, *e):
        self.trace.append(e)


def _power_level(power):
    """lifxlan's documented contract for power arguments."""
    if symx.is_sym(power):
        return power
    if power in (True, 1, 'on', 65535):
        return 65535
    if power in (False, 0, 'off'):
        return 0
    raise ValueError('%r is not a valid power level (lifxlan InvalidParameterException)' % (power,))


class _Chain:
    def __init__(self, h, w):
        self.start_index = 0
        self.tile_devices = [{'width': w, 'height': h}]


class _TileState:
    def __init__(self, colors):
        self.colors = colors


class StubDevice:
    """Stands in for lifxlan.Light / MultiZoneLight / TileChain."""

    def __init__(self, net, label, group, location, kind='plain', zones=0, height=0, width=0):
        self.net = net
        self.label = label
        self.group = group
        self.location = location
        self.kind = kind
        self.color = [0, 0, 0, 0]
        self.power = 0
        self.zones = [[0, 0, 0, 0] for _ in range(zones)]
        self.height = height
        self.width = width
        self.cells = [[0, 0, 0, 0] for _ in range(height * width)]
        self.silent_features = False

    # identity (answered from the discovery broadcast; may be made faulty per check)
    def get_label(self):
        self.net.request(self, 'get_label')
        return self.label

    def get_group(self):
        self.net.request(self, 'get_group')
        return self.group

    def get_location(self):
        self.net.request(self, 'get_location')
        return self.location

    def get_product_features(self):
        self.net.request(self, 'get_product_features')
        return {'multizone': self.kind == 'multizone', 'matrix': self.kind == 'matrix',
                'color': True}

    def get_product_name(self):
        self.net.request(self, 'get_product_name')
        return 'stub ' + self.kind

    # plain light
    def set_color(self, color, duration=0, rapid=False):
        self.net.request(self, 'set_color')
        self.color = list(color)
        self.net.ev('color', self.label, list(color), duration)

    def set_power(self, power, duration=0, rapid=False):
        self.net.request(self, 'set_power')
        power = _power_level(power)
        self.power = power
        self.net.ev('power', self.label, power, duration)

    def get_color(self):
        self.net.request(self, 'get_color')
        self.net.ev('get_color', self.label, list(self.color))
        return list(self.color)

    def get_power(self):
        self.net.request(self, 'get_power')
        return self.power

    # multizone
    def get_color_zones(self, start=None, end=None):
        self.net.request(self, 'get_color_zones')
        return [list(z) for z in self.zones]

    def set_zone_color(self, start, end, color, duration=0, rapid=False, apply=1):
        self.net.request(self, 'set_zone_color')
        self.net.ev('zone', self.label, start, end, list(color), duration)
        if not symx.is_sym(start) and not symx.is_sym(end):
            for z in range(max(0, start), min(end, len(self.zones))):
                self.zones[z] = list(color)

    # matrix
    def req_with_resp(self, msg_type, resp_type, payload=None, **kw):
        self.net.request(self, 'req_with_resp:' + msg_type.__name__)
        if msg_type is GetDeviceChain:
            return _Chain(self.height, self.width)
        if msg_type is GetTileState64:
            return _TileState([list(c) for c in self.cells])
        raise WorkflowException('unexpected request')

    def fire_and_forget(self, msg_type, payload=None, **kw):
        self.net.request(self, 'fire_and_forget:' + msg_type.__name__)
        if msg_type is SetTileState64:
            colors = [None if c is None else list(c) for c in payload['colors']]
            self.cells = colors
            self.net.ev('tile', self.label, colors, payload['duration'],
                        payload['width'], payload['height'])


class StubLan:
    def __init__(self, net):
        self.net = net
        self.label = '<lan>'

    def get_lights(self):
        self.net.request(self, 'discover')
        return list(self.net.devices)

    def set_color_all_lights(self, color, duration=0, rapid=False):
        self.net.request(self, 'set_color_all')
        self.net.ev('all_color', list(color), duration)
        for d in self.net.devices:
            d.color = list(color)

    def set_power_all_lights(self, power, duration=0, rapid=False):
        self.net.request(self, 'set_power_all')
        power = _power_level(power)
        self.net.ev('all_power', power, duration)
        for d in self.net.devices:
            d.power = power


class RecClock(i_lib.Clock):
    """Bound to i_lib.Clock for VM-level checks: requests become trace events."""

    def __init__(self, net):
        self.net = net
        self.started = 0
        self.stopped = 0

    def start(self):
        self.started += 1

    def stop(self):
        self.stopped += 1

    def reset(self):
        pass

    def pause_for(self, delay):
        self.net.ev('pause', delay)

    def wait_until(self, pattern):
        self.net.ev('wait_until', pattern)


class RecOutput(i_lib.Output):
    def __init__(self, net):
        self.net = net

    def out(self, value):
        self.net.ev('out', value)

    def newline(self):
        self.net.ev('newline')

    def flush(self):
        pass


class _LogCapture(logging.Handler):
    def __init__(self, net):
        super().__init__(level=logging.DEBUG)
        self.net = net

    def emit(self, record):
        try:
            msg = record.getMessage()
        except Exception:           # e.g. the repo's own bad format args
            msg = str(record.msg)
        if record.levelno >= logging.WARNING:
            self.net.log.append((record.levelname, msg))
        if msg.startswith('Machine stopped due to'):
            self.net.aborted = msg


DEFAULT_SPECS = (
    # label, group, location, kind, zones, h, w
    ('A', 'G1', 'L1', 'plain'),
    ('B', 'G1', 'L2', 'plain'),
    ('C', 'G2', 'L1', 'plain'),
    ('Z', 'G2', 'L2', 'multizone', 8),
    ('M', 'G3', 'L2', 'matrix', 0, 3, 3),
)


def make_device(net, spec):
    label, group, location, kind, *rest = spec
    zones = rest[0] if len(rest) > 0 else 0
    h = rest[1] if len(rest) > 1 else 0
    w = rest[2] if len(rest) > 2 else 0
    return StubDevice(net, label, group, location, kind, zones, h, w)


_installed = {}


def silence_keyboard():
    """`pause` and `breakpoint` talk to the terminal; outside every claim, so they are
    answered at once and kept quiet."""
    import bardolph.vm.machine as machine_mod
    machine_mod.getch = lambda: ' '
    machine_mod.print = lambda *a, **k: None


_NUMERIC_MODULES = ('bardolph.controller.units', 'bardolph.controller.color_matrix', 'bardolph.lib.param_helper',
                    'bardolph.lib.color', 'bardolph.vm.machine', 'bardolph.controller.lifx_lan_light',
                    'bardolph.controller.light_set', 'bardolph.controller.lifx_lan_api', 'bardolph.vm.vm_math')


def install_real_mode():
    """The numeric modules call the builtins float() and int(); in real-mode analysis they are the
    identity / truncation on proxies.  Rebinding the module-level names keeps /repo untouched."""
    import importlib
    for name in _NUMERIC_MODULES:
        m = importlib.import_module(name)
        m.float = symx.sym_float
        m.int = symx.sym_int
    from . import ufmath
    importlib.import_module('bardolph.runtime.bardolph_math').math = ufmath.UFMath()


def uninstall_real_mode():
    import importlib
    for name in _NUMERIC_MODULES:
        m = importlib.import_module(name)
        for b in ('float', 'int'):
            if b in m.__dict__:
                delattr(m, b)
    import math
    importlib.import_module('bardolph.runtime.bardolph_math').math = math


def configure(specs=DEFAULT_SPECS, clock='rec', output='rec', extra_settings=None,
              discover=True):
    """Fresh world.  Returns the Net."""
    install_real_mode()
    silence_keyboard()
    net = Net()
    root = logging.getLogger()
    for h in list(root.handlers):
        root.removeHandler(h)
    root.addHandler(_LogCapture(net))
    root.setLevel(logging.WARNING)

    injection.configure()
    cfg = {
        'single_light_discover': True,
        'default_num_lights': None,
        'light_gc_time': 300,
        'sleep_time': 0.1,
        'log_level': logging.ERROR,
        'log_to_console': True,
        'use_fakes': False,
    }
    if extra_settings:
        cfg.update(extra_settings)
    settings.using(cfg).configure()

    net.devices = [make_device(net, s) for s in specs]
    api = lifx_lan_api.LifxLanApi()
    api._lifxlan = StubLan(net)
    net.api = api
    injection.bind_instance(api).to(i_controller.LightApi)

    if clock == 'rec':
        net.clock = RecClock(net)
        injection.bind_instance(net.clock).to(i_lib.Clock)
    elif clock is not None:
        clock(net)
    if output == 'rec':
        injection.bind_instance(RecOutput(net)).to(i_lib.Output)
    elif output is not None:
        output(net)
    runtime_module.configure()

    ls = light_set.LightSet()
    net.light_set = ls
    injection.bind_instance(ls).to(i_controller.LightSet)
    if discover:
        ls.discover()
        net.requests.clear()
        net.trace.clear()
    return net


# --- coverage of the real code (functions "encoded") --------------------------
_seen_code = set()
_TOOL = 3
_REPO = __import__('os').environ.get('VERIF_REPO', '/repo').rstrip('/') + '/' 


def start_function_trace():
    mon = sys.monitoring
    try:
        mon.use_tool_id(_TOOL, 'verif')
    except ValueError:
        return

    def on_start(code, offset):
        fn = code.co_filename
        if _REPO and isinstance(fn, str) and fn.startswith(_REPO):
            _seen_code.add('%s:%s' % (fn[len(_REPO):], code.co_qualname))
        return mon.DISABLE
    mon.register_callback(_TOOL, mon.events.PY_START, on_start)
    mon.set_events(_TOOL, mon.events.PY_START)


def functions_seen():
    return sorted(_seen_code)
