"""Script harness: real compiler + real VM on symbolic literals versus refsem.

A `Case` is a program AST whose numeric literals may be symbolic.  The text is
compiled once with the real Parser; per explored path the sentinel literals in
the compiled Instruction objects are replaced by that path's proxies, the real
Machine runs the program against the simulated network, refsem interprets the
AST on the same proxies, and the two traces are compared by one solver query
(path condition AND NOT all-fields-agree).  Counterexamples are replayed with
plain Python numbers (no proxies, builtin float restored) before being reported.
"""
import time
from fractions import Fraction

import z3

from bardolph.parser.parse import Parser
from bardolph.vm.machine import Machine
from bardolph.vm.vm_codes import OpCode

from . import refsem, symx, world
from .refsem import SENT_BASE

ANY = object()

DOMAINS = {
    # kind: (sort, lo, hi)   -- interior of the documented ranges (edges are C07's)
    'hue': ('real', 1, 359),
    'pct': ('real', 1, 99),
    'kelvin': ('int', 1500, 9000),
    'dur': ('real', 0, 100),
    'time': ('real', 0, 100),
    'ptime': ('real', 1, 100),
    'val': ('real', -50, 50),
    'int': ('int', -6, 6),
    'count': ('int', 0, 3),
    'count2': ('int', 0, 2),
    'int3': ('int', -3, 3),
    'raw': ('int', 0, 65535),
    'zone': ('int', 0, 7),
    'any': ('real', None, None),
    'cell': ('int', 0, 2),
    'cyc': ('real', -400, 800),        # start of a cycle: the values may pass a full turn (they are not wrapped)
    'cycraw': ('real', 0, 100000),
}


class Case:
    def __init__(self, stmts, specs=world.DEFAULT_SPECS, tag='', doms=None, vm_steps=600,
                 ref_steps=300, init_colors=None, before=None):
        self.stmts = stmts
        # a script the same Machine has run to its end before this one (reset in between, as ScriptJob.execute does);
        # the reference semantics never sees it: a run does not depend on earlier runs
        self.before = before
        self.specs = specs
        self.tag = tag
        self.doms = doms or {}
        self.vm_steps = vm_steps
        self.ref_steps = ref_steps
        self.init_colors = init_colors      # {label: [sid or number]*4}
        self.nums = {}
        _collect_nums(stmts, self.nums)
        _collect_nums(list((init_colors or {}).values()), self.nums)
        self.text = refsem.render(stmts)

    def domain(self, sid):
        n = self.nums[sid]
        if sid in self.doms:
            return self.doms[sid]
        return DOMAINS[n.kind]


def _collect_nums(x, out):
    if isinstance(x, refsem.Num):
        if x.sid is not None:
            out[x.sid] = x
    elif isinstance(x, refsem.Node):
        for v in x.__dict__.values():
            _collect_nums(v, out)
    elif isinstance(x, (list, tuple)):
        for v in x:
            _collect_nums(v, out)


class StepBound(symx.Abort):
    pass


def compile_case(case):
    """-> (program, slots) or raises CompileError."""
    world.configure(case.specs)
    p = Parser()
    ok = p.parse(case.text)
    if not ok:
        raise CompileError(p.get_errors())
    prog = p.get_program()
    slots = []
    for inst in prog:
        for attr in ('param0', 'param1'):
            v = getattr(inst, attr)
            if isinstance(v, int) and not isinstance(v, bool) and abs(v) >= SENT_BASE:
                sid = abs(v) - SENT_BASE
                if sid in case.nums:
                    slots.append((inst, attr, sid, -1 if v < 0 else 1))
    found = {s[2] for s in slots}
    init_sids = set()
    _init = {}
    _collect_nums(list((case.init_colors or {}).values()), _init)      # symbolic device states are not in the script text
    init_sids = set(_init)
    missing = set(case.nums) - found - init_sids
    if missing:
        raise CompileError('sentinels not found in compiled program: %s' % sorted(missing))
    return prog, slots


class CompileError(Exception):
    pass


def _instrument(machine, limit, monitor=None):
    count = [0]
    table = machine._fn_table

    def wrap(fn):
        def stepped():
            count[0] += 1
            if count[0] > limit:
                raise StepBound('vm step bound %d' % limit)
            if monitor is not None:
                monitor(machine)
            return fn()
        return stepped
    for k in list(table):
        table[k] = wrap(table[k])
    return count


def run_vm(case, prog, slots, values, monitor=None, post=None):
    """values: sid -> number/proxy.  Returns net (trace, aborted ...)."""
    net = world.configure(case.specs)
    if case.init_colors:
        for d in net.devices:
            if d.label in case.init_colors:
                d.color = [values[c.sid] if c.sid is not None else c.value
                           for c in case.init_colors[d.label]]
    for inst, attr, sid, sign in slots:
        v = values[sid]
        setattr(inst, attr, v if sign > 0 else -v)
    m = Machine()
    m.reset()
    if getattr(case, 'before', None):
        saved_ctx = symx.Ctx.cur
        p0 = Parser()
        if not p0.parse(case.before):
            raise CompileError('the script to run before does not compile: %s' % p0.get_errors())
        m.run(p0.get_program())
        assert symx.Ctx.cur is saved_ctx
        del net.trace[:]
        net.aborted = None
        m.reset()
    net.machine = m
    net.steps = _instrument(m, case.vm_steps, monitor)
    try:
        m.run(prog)
    finally:
        for inst, attr, sid, sign in slots:
            setattr(inst, attr, sign * (SENT_BASE + sid))
    if post is not None:
        post(net, m)
    return net


def run_ref(case, values, net):
    w = refsem.World(case.specs)
    gets = [e for e in net.trace if e[0] == 'get_color']
    interp = refsem.Interp(w, lambda n: values[n.sid] if n.sid is not None else n.value,
                           max_steps=case.ref_steps)
    queue = list(gets)

    def device_color(name):
        # the colour the simulated device reported to the VM at its next `get`
        for i, e in enumerate(queue):
            if e[1] == name:
                del queue[i]
                return list(e[2])
        raise refsem.OutOfScope('no get observed for ' + name)
    interp.device_color = device_color
    interp.run(case.stmts)
    return interp


def norm_vm_trace(trace):
    out = []
    for e in trace:
        if e[0] == 'get_color':
            out.append(('get_color', e[1]))
        else:
            out.append(e)
    return out


def make_values(ctx, case):
    vals = {}
    for sid in sorted(case.nums):
        sort, lo, hi = case.domain(sid)
        name = 'n%d_%s' % (sid, case.nums[sid].kind)
        vals[sid] = ctx.int(name, lo, hi) if sort == 'int' else ctx.real(name, lo, hi)
        if case.nums[sid].kind in ('time', 'dur', 'ptime') and sort == 'real':
            # a delay or duration is 0 or at least 1/1000 of its unit: units.py snaps raw times below 2**-17 ms to 0,
            # so "a wait of 5 ns" and "no wait" are the same setting (nearest millisecond), not two event sequences
            ctx.assume(z3.Or(vals[sid].e == 0, vals[sid].e >= z3.RealVal('1/1000')))
    return vals


def concrete_values(case, model_vals):
    out = {}
    for sid in sorted(case.nums):
        name = 'n%d_%s' % (sid, case.nums[sid].kind)
        v = model_vals.get(name, 0)
        sort = case.domain(sid)[0]
        if isinstance(v, Fraction):
            v = int(v) if v.denominator == 1 else float(v)
        if sort == 'int':
            v = int(v)
        out[sid] = v
    return out


def text_with_values(case, vals):
    t = case.text
    for sid in sorted(vals, reverse=True):
        v = vals[sid]
        t = t.replace(refsem.sent_text(sid), refsem._num_text(v) if v >= 0 else '-' + refsem._num_text(-v))
    if getattr(case, 'before', None):
        t = '# run on a Machine that has run this script to its end before (reset in between): %s\n%s' % (case.before, t)
    return t


def judge_concrete(case, prog, slots, vals, extra_check=None):
    """Run VM and refsem on plain numbers.  -> None if they agree, else message."""
    saved = symx.Ctx.cur
    symx.Ctx.cur = None
    world.uninstall_real_mode()
    try:
        net = run_vm(case, prog, slots, vals)
        try:
            interp = run_ref(case, vals, net)
        except refsem.OutOfScope:
            return extra_check(net, None) if extra_check is not None else None
        if net.aborted:
            return 'run aborted: ' + net.aborted
        mm, cons = refsem.compare_traces(norm_vm_trace(net.trace), interp.trace, slack=1e-6)
        if mm:
            return mm
        for desc, c, *_ in cons:
            if not z3.is_true(z3.simplify(c)):
                return 'field %s differs' % desc
        if extra_check is not None:
            return extra_check(net, interp)
        return None
    except symx.Abort as a:
        return None if isinstance(a, StepBound) else 'abort ' + str(a)
    finally:
        world.install_real_mode()
        symx.Ctx.cur = saved


def explore_case(case, res, timeout_ms=4000, max_paths=4000, deadline=None, monitor=None,
                 extra_sym=None, extra_concrete=None, site='trace', sample_every=1):
    """Explore one case; record everything into WorkResult `res`."""
    res.sites.add(site)
    try:
        prog, slots = compile_case(case)
    except CompileError as ce:
        res.error = 'generated script does not compile (%s): %s\n%s' % (case.tag, ce, case.text)
        return
    npaths = 0
    for ctx, out in symx.explore(lambda c: _one_path(c, case, prog, slots, monitor, extra_sym),
                                 max_paths=max_paths, timeout_ms=timeout_ms, stats=res.stats,
                                 deadline=deadline):
        npaths += 1
        if isinstance(out, symx.Abort):
            res.out_of_bound += 1
            if str(out.why).startswith('unsupported'):
                # the proxies cannot follow the code here (e.g. math.fmod needs a real double):
                # fall back to concrete runs on solver models of the path so far.  A hit is a replayed
                # violation; a miss leaves the path undecided (counted, never a pass).
                res.extra['unsupported_paths'] = res.extra.get('unsupported_paths', 0) + 1
                _concretise(ctx, case, prog, slots, res, extra_concrete, str(out.why))
            continue
        kind, payload = out
        if kind == 'skip':
            continue
        if len(ctx.trail) > 0 or payload.get('cons'):
            res.nontrivial += 1
        if npaths in VALIDATE_PATHS:
            # Validation of the encoding, and the only place where Python's int/float distinction shows (range(2.0),
            # list[2.0], randint(1, 3.0) are type errors the type-agnostic proxies never see): the first paths of
            # every case are also run on the plain numbers of a model of their path condition and judged concretely.
            vmodel = ctx.path_model()
            if vmodel is not None:
                vvals = concrete_values(case, ctx.model_values(vmodel))
                vmsg = judge_concrete(case, prog, slots, vvals, extra_concrete)
                res.extra['validation_runs'] = res.extra.get('validation_runs', 0) + 1
                if vmsg is not None:
                    text = text_with_values(case, vvals)
                    res.violation('%s|%s' % (case.tag, _sig_of(vmsg)),
                                  '%s\n  shape: %s\n  found by the concrete validation run on a model of a path the solver had passed\n  script:\n%s'
                                  % (vmsg, case.tag, text), inputs={'script': text, 'values': vvals}, replayed=True)
                    return
        mm = payload.get('mismatch')
        cons = payload.get('cons', [])
        if mm is None and not cons:
            # nothing numeric to decide, structure equal: still a reached site if pc sat
            res.reached.add(site)
            continue
        if mm is not None:
            prop = False
            what = mm
        else:
            prop = z3.And(*[c[1] for c in cons])
            what = None
        verdict, model = ctx.prove(prop)
        if verdict == 'unsat':
            if mm is None:
                res.reached.add(site)
            continue
        if verdict == 'unknown':
            res.inconclusive.append('%s: %s' % (case.tag, what or 'fields'))
            continue
        res.reached.add(site)
        # sat: prefer a robust counterexample (violated with a margin), find the field, replay
        if what is None:
            rob = [c[2] for c in cons if len(c) > 2 and c[2] is not None]
            if rob and ctx.check(z3.Or(*rob)) == 'sat':
                model = ctx.solver.model()
            for desc, c, *_ in cons:
                if not z3.is_true(model.eval(c, model_completion=True)):
                    what = 'field %s' % desc
                    break
        _report(ctx, case, prog, slots, model, what or 'fields differ', res, extra_concrete)
        if npaths <= 2:
            pass
    if not symx.explore.last_exhaustive:
        res.exhaustive = False
    res.sample({'tag': case.tag, 'script': case.text[:400], 'paths': npaths})


VALIDATE_PATHS = (1, 2)
REGIONS = [None, ('<', 0), ('>', 0), ('>', 360), ('<', -360), ('>', 65535), ('>', 100)]


def _concretise(ctx, case, prog, slots, res, extra_concrete, why, k=8):
    import random
    rng = random.Random(len(case.text))
    ctx.deadline = None
    tried = 0
    vars_ = [c for n, c in ctx.vars.items() if n.startswith('n')]
    for i in range(k * 3):
        if tried >= k:
            break
        extra = []
        for c in vars_:
            r = rng.choice(REGIONS)
            if r is not None and z3.is_real(c):
                extra.append(c < r[1] if r[0] == '<' else c > r[1])
        if ctx.check(*extra) != 'sat':
            continue
        model = ctx.solver.model()
        tried += 1
        vals = concrete_values(case, ctx.model_values(model))
        msg = judge_concrete(case, prog, slots, vals, extra_concrete)
        res.extra['concretised_runs'] = res.extra.get('concretised_runs', 0) + 1
        if msg is not None:
            text = text_with_values(case, vals)
            sig = '%s|%s' % (case.tag, _sig_of(msg))
            res.violation(sig, '%s\n  found by concrete runs on solver models of a path the proxies could not follow (%s)\n  script:\n%s'
                          % (msg, why, text), inputs={'script': text, 'values': vals}, replayed=True)
            return
    res.inconclusive.append('%s: path not followed symbolically (%s); %d concrete runs on its models agree with the oracle' % (case.tag, why, tried))


def _report(ctx, case, prog, slots, model, what, res, extra_concrete=None):
    tried = 0
    msg = None
    vals = None
    while tried < 4:
        mv = ctx.model_values(model)
        vals = concrete_values(case, mv)
        msg = judge_concrete(case, prog, slots, vals, extra_concrete)
        if msg is not None:
            break
        tried += 1
        # ask for a different model of the same violating path
        block = z3.Or(*[c != model.eval(c, model_completion=True) for c in ctx.vars.values()]) \
            if ctx.vars else z3.BoolVal(False)
        ctx.solver.add(block)
        if ctx.check() != 'sat':
            break
        model = ctx.solver.model()
    text = text_with_values(case, vals) if vals is not None else case.text
    sig = '%s|%s' % (case.tag, _sig_of(what))
    res.violation(sig, '%s\n  shape: %s\n  symbolic verdict: %s\n  replay: %s\n  script:\n%s'
                  % (sig, case.tag, what, msg, text),
                  inputs={'script': text, 'values': vals, 'specs': case.specs},
                  replayed=msg is not None)


def _sig_of(what):
    import re
    w = re.sub(r'\d+', 'N', what)
    return w[:80]


def _one_path(ctx, case, prog, slots, monitor, extra_sym):
    vals = make_values(ctx, case)
    net = run_vm(case, prog, slots, vals, monitor)
    try:
        interp = run_ref(case, vals, net)
    except refsem.OutOfScope:
        # the reference semantics says nothing here; oracle-independent checks still apply
        if extra_sym is None:
            return ('skip', {})
        cons = []
        m2 = extra_sym(ctx, net, None, cons)
        return ('v', {'mismatch': m2, 'cons': cons})
    if net.aborted:
        return ('v', {'mismatch': 'run aborted: %s' % net.aborted})
    mm, cons = refsem.compare_traces(norm_vm_trace(net.trace), interp.trace)
    payload = {'mismatch': mm, 'cons': cons}
    if mm is None and extra_sym is not None:
        m2 = extra_sym(ctx, net, interp, cons)
        if m2:
            payload['mismatch'] = m2
    return ('v', payload)
