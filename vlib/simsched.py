"""simsched -- schedules as choice variables over the real threaded code.

The modules under analysis keep their own code; in the harness process their
module-level names `threading` / `time` are rebound to the shims below.  Every
simulated thread is an OS thread that only runs while it holds the scheduler's
baton, so execution is sequential and deterministic.  At every yield point
(each shim operation and each access to a traced shared field) the scheduler
asks the symx context which runnable thread goes next; switching away from a
thread that could continue costs one preemption, and at most `max_preempt`
preemptions are spent per schedule.  symx.explore() then enumerates every
schedule within that bound.
"""
import threading as _rt

from . import symx


class Kill(BaseException):
    """Unwinds a simulated thread when the schedule is over."""


class Deadlock(Exception):
    pass


class SimThread:
    def __init__(self, sched, fn, name):
        self.s = sched
        self.fn = fn
        self.name = name
        self.started = False
        self.done = False
        self.blocked_on = None      # predicate -> True when it may continue
        self.deadline = None        # virtual instant at which a timed wait gives up
        self.sem = _rt.Semaphore(0)
        self.exc = None
        self.daemon = False
        self.os = _rt.Thread(target=self._run, daemon=True)

    def _run(self):
        self.sem.acquire()
        try:
            if not self.s.killed:
                self.fn()
        except Kill:
            pass
        except symx.Abort as a:
            self.s.abort = a
        except BaseException as e:      # noqa: recorded, the harness decides what it means
            self.exc = e
        self.done = True
        self.s.main_sem.release()

    def is_alive(self):
        return self.started and not self.done


class Sched:
    cur_sched = None

    def __init__(self, ctx, max_preempt=2, max_steps=600):
        self.ctx = ctx
        self.threads = []
        self.cur = None
        self.main_sem = _rt.Semaphore(0)
        self.preempts = 0
        self.max_preempt = max_preempt
        self.max_steps = max_steps
        self.steps = 0
        self.killed = False
        self.abort = None
        self.now = 0.0
        self.switches = []
        self.out_of_steps = False
        self.stop_when = None        # predicate: end the schedule early (e.g. all non-daemon work done)
        self.streak = 0              # consecutive steps of the current thread while others could run
        self.fair_after = 40         # fairness: a spinning thread cannot starve the others for ever
        Sched.cur_sched = self

    # -- threads
    def spawn(self, fn, name, start=True):
        t = SimThread(self, fn, name)
        self.threads.append(t)
        if start:
            t.started = True
            t.os.start()
        return t

    def runnable(self):
        out = []
        for t in self.threads:
            if not t.started or t.done:
                continue
            if t.blocked_on is not None:
                if t.blocked_on() or (t.deadline is not None and self.now >= t.deadline):
                    t.blocked_on = None
                    t.deadline = None
                else:
                    continue
            out.append(t)
        if not out:
            # everybody waits: virtual time jumps to the earliest time-out, if there is one
            timed = [t for t in self.threads if t.started and not t.done and t.blocked_on is not None and t.deadline is not None]
            if timed:
                self.now = min(t.deadline for t in timed)
                return self.runnable()
        return out

    def _choose(self, opts):
        cur = self.cur if self.cur in opts else None
        if len(opts) == 1:
            self.streak = 0
            return opts[0]
        if cur is not None:
            self.streak += 1
            if self.streak > self.fair_after:
                # a real scheduler is fair: hand over (round robin) without spending a preemption
                self.streak = 0
                others = [o for o in opts if o is not cur]
                return others[self.steps % len(others)]
        else:
            self.streak = 0
        if cur is not None and self.preempts >= self.max_preempt:
            return cur
        order = ([cur] + [o for o in opts if o is not cur]) if cur is not None else opts
        k = self.ctx.choose(len(order), 'sched')
        ch = order[k]
        if cur is not None and ch is not cur:
            self.preempts += 1
        return ch

    def run(self):
        """Run until no thread can run.  Returns the list of threads left unfinished."""
        try:
            while True:
                if self.abort is not None:
                    break
                if self.stop_when is not None and self.stop_when():
                    break
                opts = self.runnable()
                if not opts:
                    break
                self.steps += 1
                if self.steps > self.max_steps:
                    self.out_of_steps = True
                    break
                t = self._choose(opts)
                if t is not self.cur:
                    self.switches.append(t.name)
                self.cur = t
                t.sem.release()
                self.main_sem.acquire()
        except symx.Abort as a:
            self.abort = a
        left = [t for t in self.threads if t.started and not t.done]
        self.killed = True
        for t in left:
            t.sem.release()
            self.main_sem.acquire()
        Sched.cur_sched = None
        if self.abort is not None:
            raise self.abort
        return left

    # -- called from simulated threads
    def _me(self):
        t = self.cur
        if t is None or _rt.current_thread() is not t.os:
            return None
        return t

    def yield_point(self, what=None):
        t = self._me()
        if t is None:
            return
        self.main_sem.release()
        t.sem.acquire()
        if self.killed:
            raise Kill()

    def block(self, pred, timeout=None):
        t = self._me()
        if t is None:
            if not pred():
                raise Deadlock('blocking call outside the scheduler would never return')
            return
        t.blocked_on = pred
        t.deadline = None if timeout is None or timeout < 0 else self.now + timeout
        self.main_sem.release()
        t.sem.acquire()
        if self.killed:
            raise Kill()


def S():
    return Sched.cur_sched


# ---- shims ---------------------------------------------------------------------------------
class ShimThread:
    def __init__(self, target=None, args=(), kwargs=None, daemon=None, name=None, group=None):
        s = S()
        kwargs = kwargs or {}
        self._t = s.spawn(lambda: target(*args, **kwargs), name or getattr(target, '__name__', 'thread'), start=False)
        self._t.daemon = bool(daemon)
        self.daemon = bool(daemon)
        self.name = self._t.name

    def start(self):
        s = S()
        s.yield_point('thread.start')
        self._t.started = True
        self._t.os.start()

    def is_alive(self):
        S().yield_point('thread.is_alive')
        return self._t.is_alive()

    def join(self, timeout=None):
        S().block(lambda: self._t.done)


class ShimRLock:
    def __init__(self):
        self.owner = None
        self.count = 0

    def acquire(self, blocking=True, timeout=-1):
        s = S()
        s.yield_point('lock.acquire')
        me = s.cur
        while self.owner is not None and self.owner is not me:
            if not blocking:
                return False
            s.block(lambda: self.owner is None)
            me = s.cur
        self.owner = me
        self.count += 1
        return True

    def release(self):
        s = S()
        if s is None or s.killed:
            return                      # the schedule is over: threads are being unwound
        if self.owner is not s.cur:
            raise RuntimeError('cannot release un-acquired lock')
        self.count -= 1
        if self.count == 0:
            self.owner = None
        s.yield_point('lock.release')

    __enter__ = acquire

    def __exit__(self, *a):
        self.release()


class ShimEvent:
    def __init__(self):
        self.flag = False
        self.gen = 0

    def set(self):
        S().yield_point('event.set')
        self.flag = True
        self.gen += 1

    def clear(self):
        S().yield_point('event.clear')
        self.flag = False

    def is_set(self):
        return self.flag

    def wait(self, timeout=None):
        s = S()
        s.yield_point('event.wait')
        if self.flag:
            return True
        g = self.gen
        s.block(lambda: self.gen != g, timeout)
        return self.gen != g or self.flag


class ShimThreading:
    Thread = ShimThread
    RLock = ShimRLock
    Lock = ShimRLock
    Event = ShimEvent

    @staticmethod
    def current_thread():
        return S().cur


class ShimTime:
    """time module stand-in: virtual seconds; sleep() advances the clock and yields."""
    @staticmethod
    def time():
        return S().now

    @staticmethod
    def sleep(d):
        # discrete-event model: the sleeper is blocked until virtual time reaches its wake-up
        # instant, and time only moves when every thread is blocked.  (No starvation: a thread
        # that sleeps in a loop never keeps the baton.)
        s = S()
        if s._me() is None:
            s.now = s.now + d
            return
        s.block(lambda: False, d)


def traced(cls, fields):
    """Subclass of cls in which reads and writes of the named instance attributes are yield points."""
    ns = {}
    for f in fields:
        def g(self, f=f):
            s = S()
            if s is not None:
                s.yield_point(('read', f))
            return self.__dict__['$' + f]

        def st(self, v, f=f):
            s = S()
            if s is not None:
                s.yield_point(('write', f))
            self.__dict__['$' + f] = v
        ns[f] = property(g, st)
    return type('Traced' + cls.__name__, (cls,), ns)
