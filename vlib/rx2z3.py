"""rx2z3 -- Python regular expressions (as parsed by re._parser) to z3 regex terms.

Supports literals, classes, ranges, \\d \\s \\w, negated classes over an ASCII
alphabet, * + ? {m,n}, alternation, groups.  Python's leftmost/ordered/greedy
matching is not a language-level notion; each lemma states how the language
query relates to the behaviour of re.  Two idioms are rewritten:
  * the look-behind `[^"]|(?<=\\\\)"`  ->  `\\\\"|[^"]`   (validated against re)
  * a trailing look-ahead `(?=(\\s|$))` is dropped and reported, to be handled as
    a context condition by the caller.
"""
import re
import re._constants as sc
import re._parser as sp

import z3

ASCII = z3.Range(chr(1), chr(0x7e))
SPACE_CHARS = ' \t\n\r\x0b\x0c'


def _cls_item(op, av):
    if op is sc.LITERAL:
        return z3.Re(chr(av))
    if op is sc.RANGE:
        return z3.Range(chr(av[0]), chr(av[1]))
    if op is sc.CATEGORY:
        if av is sc.CATEGORY_DIGIT:
            return z3.Range('0', '9')
        if av is sc.CATEGORY_SPACE:
            return z3.Union(*[z3.Re(c) for c in SPACE_CHARS])
        if av is sc.CATEGORY_NOT_SPACE:
            return z3.Intersect(ASCII, z3.Complement(z3.Union(*[z3.Re(c) for c in SPACE_CHARS])))
        if av is sc.CATEGORY_WORD:
            return z3.Union(z3.Range('a', 'z'), z3.Range('A', 'Z'), z3.Range('0', '9'), z3.Re('_'))
    raise NotImplementedError((op, av))


class Translated:
    def __init__(self, rex, dropped_lookahead=False, rewrote_lookbehind=False):
        self.re = rex
        self.dropped_lookahead = dropped_lookahead
        self.rewrote_lookbehind = rewrote_lookbehind


def _tr(seq, st):
    parts = []
    seq = list(seq)
    for idx, (op, av) in enumerate(seq):
        if op is sc.LITERAL:
            parts.append(z3.Re(chr(av)))
        elif op is sc.NOT_LITERAL:
            parts.append(z3.Intersect(ASCII, z3.Complement(z3.Re(chr(av)))))
        elif op is sc.IN:
            neg = bool(av) and av[0][0] is sc.NEGATE
            items = [_cls_item(o, a) for o, a in av if o is not sc.NEGATE]
            u = items[0] if len(items) == 1 else z3.Union(*items)
            parts.append(z3.Intersect(ASCII, z3.Complement(u)) if neg else u)
        elif op is sc.MAX_REPEAT or op is sc.MIN_REPEAT:
            lo, hi, sub = av
            r = _tr(sub, st)
            if hi is sc.MAXREPEAT:
                if lo == 0:
                    parts.append(z3.Star(r))
                elif lo == 1:
                    parts.append(z3.Plus(r))
                else:
                    parts.append(z3.Concat(*([r] * lo + [z3.Star(r)])))
            elif lo == 0 and hi == 1:
                parts.append(z3.Option(r))
            else:
                parts.append(z3.Loop(r, lo, hi))
        elif op is sc.BRANCH:
            alts = av[1]
            # rewrite  [^"] | (?<=\\)"   ->   \\" | [^"]
            if len(alts) == 2 and _is_lookbehind_quote(alts[1]):
                st['lookbehind'] = True
                q = chr(alts[1][1][1])
                notq = _tr(alts[0], st)
                parts.append(z3.Union(z3.Concat(z3.Re('\\'), z3.Re(q)), notq))
            else:
                parts.append(z3.Union(*[_tr(b, st) for b in alts]) if len(alts) > 1 else _tr(alts[0], st))
        elif op is sc.SUBPATTERN:
            parts.append(_tr(av[3], st))
        elif op is sc.ANY:
            parts.append(z3.Intersect(ASCII, z3.Complement(z3.Re('\n'))))
        elif op is sc.ASSERT:
            direction, sub = av
            if direction == 1 and idx == len(seq) - 1:
                st['lookahead'] = True      # trailing look-ahead: context condition
            else:
                raise NotImplementedError('assertion inside pattern')
        elif op is sc.AT:
            if av in (sc.AT_BEGINNING, sc.AT_END):
                continue
            raise NotImplementedError(av)
        else:
            raise NotImplementedError(op)
    if not parts:
        return z3.Re('')
    return parts[0] if len(parts) == 1 else z3.Concat(*parts)


def _is_lookbehind_quote(alt):
    alt = list(alt)
    return (len(alt) == 2 and alt[0][0] is sc.ASSERT and alt[0][1][0] == -1 and alt[1][0] is sc.LITERAL)


def translate(spec):
    st = {}
    r = _tr(sp.parse(spec), st)
    return Translated(r, st.get('lookahead', False), st.get('lookbehind', False))


def witnesses(formula_fn, var, limit=8, timeout_ms=20000):
    """Enumerate up to `limit` models of formula over string var."""
    s = z3.Solver()
    s.set('timeout', timeout_ms)
    s.add(formula_fn)
    out = []
    while len(out) < limit:
        r = s.check()
        if str(r) != 'sat':
            return out, str(r)
        v = s.model().eval(var, model_completion=True).as_string()
        out.append(v)
        s.add(var != z3.StringVal(v))
    return out, 'sat'


def decode(zs):
    """z3 as_string() escapes (\\u{..}) -> python str."""
    return re.sub(r'\\u\{([0-9a-fA-F]+)\}', lambda m: chr(int(m.group(1), 16)), zs)
