"""IEEE-754 double proxies for short leaf kernels (C07 range lemmas).

`SymFP` wraps a z3 Float64 term; arithmetic uses round-to-nearest-even like
CPython's float; comparisons fork through the same symx context.  Only what the
clamp-and-round kernels need is implemented; anything else raises Abort so that
an unsupported operation can never pass silently.
"""
import numbers

import z3

from . import symx

F64 = z3.Float64()
RNE = z3.RNE()


def lift(x):
    if isinstance(x, SymFP):
        return x.e
    if isinstance(x, bool):
        return z3.FPVal(1.0 if x else 0.0, F64)
    if isinstance(x, (int, float)):
        return z3.FPVal(float(x), F64)
    raise TypeError(type(x))


class SymFP:
    __slots__ = ('e',)

    def __init__(self, e):
        self.e = e

    def _bin(self, o, f, sw=False):
        try:
            oe = lift(o)
        except TypeError:
            return NotImplemented
        a, b = (oe, self.e) if sw else (self.e, oe)
        return SymFP(f(RNE, a, b))

    def __add__(s, o): return s._bin(o, z3.fpAdd)
    def __radd__(s, o): return s._bin(o, z3.fpAdd, True)
    def __sub__(s, o): return s._bin(o, z3.fpSub)
    def __rsub__(s, o): return s._bin(o, z3.fpSub, True)
    def __mul__(s, o): return s._bin(o, z3.fpMul)
    def __rmul__(s, o): return s._bin(o, z3.fpMul, True)

    def __truediv__(s, o):
        oe = lift(o)
        if symx.Ctx.cur.decide(z3.fpIsZero(oe)):
            raise ZeroDivisionError('float division by zero')
        return SymFP(z3.fpDiv(RNE, s.e, oe))

    def __neg__(s): return SymFP(z3.fpNeg(s.e))

    def _cmp(s, o, f):
        try:
            oe = lift(o)
        except TypeError:
            return NotImplemented
        return symx.SymBool(f(s.e, oe))

    def __lt__(s, o): return s._cmp(o, z3.fpLT)
    def __le__(s, o): return s._cmp(o, z3.fpLEQ)
    def __gt__(s, o): return s._cmp(o, z3.fpGT)
    def __ge__(s, o): return s._cmp(o, z3.fpGEQ)
    def __eq__(s, o):
        try:
            return symx.SymBool(z3.fpEQ(s.e, lift(o)))
        except TypeError:
            return False
    def __ne__(s, o):
        try:
            return symx.SymBool(z3.Not(z3.fpEQ(s.e, lift(o))))
        except TypeError:
            return True
    __hash__ = None

    def __bool__(s):
        return symx.Ctx.cur.decide(z3.Not(z3.fpIsZero(s.e)))

    def __round__(s, nd=None):
        ctx = symx.Ctx.cur
        if ctx.decide(z3.fpIsNaN(s.e)):
            raise ValueError('cannot convert float NaN to integer')
        if ctx.decide(z3.fpIsInf(s.e)):
            raise OverflowError('cannot convert float infinity to integer')
        return SymFP(z3.fpRoundToIntegral(RNE, s.e))      # an integral double (Python returns that int)

    def __mod__(s, o):
        raise symx.Abort('float % is not modelled')

    def __float__(s):
        raise symx.Abort('float() of a symbolic double')

    def __repr__(s):
        return 'SymFP(%s)' % s.e


numbers.Number.register(SymFP)


def fp_float(x):
    """stand-in for builtin float() in modules under FP analysis"""
    if isinstance(x, SymFP):
        return x
    return float(x)
