"""symx -- bounded symbolic execution of the real Python code by proxy objects.

The code under analysis runs natively.  Numbers are `SymNum` (a z3 Real term,
integers embedded), truth values are `SymBool` (a z3 Bool term).  Whenever
Python needs a concrete truth value or a concrete integer, the proxy asks the
current `Ctx` to *decide*: both outcomes are checked for feasibility under the
path condition with z3; the first feasible one is taken, the other is left for
a later path.  `explore()` re-executes the harness once per path (depth-first)
until no feasible untried alternative is left, i.e. the exploration is
exhaustive within whatever bounds the harness declares (`Abort` = path beyond a
bound, counted separately).

At the end of a path the harness states assertions as z3 formulas; `Ctx.prove`
asks for a model of  path_condition AND NOT assertion.
  unsat   -> holds for every value that drives the code down this path
  sat     -> counterexample (concrete values via `Ctx.model_values`)
  unknown -> inconclusive (counted, never a pass)
"""
import math
import numbers
import time
import operator
from fractions import Fraction

import z3

R = z3.RealSort()
I = z3.IntSort()
B = z3.BoolSort()
HALF = z3.RealVal('1/2')


class Abort(BaseException):
    """Path abandoned: beyond a declared bound (or infeasible).  BaseException so
    that `except Exception` in the code under analysis does not swallow it."""
    def __init__(self, why='bound'):
        super().__init__(why)
        self.why = why


class Stats:
    def __init__(self):
        self.paths = 0
        self.aborted = 0
        self.queries = 0
        self.q_sat = 0
        self.q_unsat = 0
        self.q_unknown = 0
        self.solver_s = 0.0
        self.decisions = 0
        self.proved = 0
        self.refuted = 0
        self.inconclusive = 0
        self.max_depth = 0

    def merge(self, o):
        for k, v in o.__dict__.items():
            if k == 'max_depth':
                self.max_depth = max(self.max_depth, v)
            else:
                setattr(self, k, getattr(self, k) + v)
        return self

    def as_dict(self):
        d = dict(self.__dict__)
        d['solver_s'] = round(d['solver_s'], 3)
        return d


class Ctx:
    """One path.  `Ctx.cur` is the active context (one per process at a time)."""
    cur = None

    def __init__(self, prefix=(), timeout_ms=5000, stats=None, round_mode='exact'):
        self.solver = z3.Solver()
        self.solver.set('timeout', timeout_ms)
        self.timeout_ms = timeout_ms
        self.prefix = list(prefix)      # forced alternative index per decision
        self.trail = []                 # [chosen_alt, [remaining alts]] per decision
        self.alts = []                  # per decision: list of alternative descriptions
        self.nvars = 0
        self.vars = {}                  # name -> z3 const (for model extraction)
        self.stats = stats or Stats()
        self.model = None               # a model of the current path condition, if known
        self.round_mode = round_mode    # 'exact' | 'elide'
        self.elided_rounds = 0
        self.notes = []
        self.unknown_feas = 0
        self.depth_limit = 4000
        self.deadline = None

    # ---- variables -------------------------------------------------------
    def _fresh(self, name, sort):
        self.nvars += 1
        full = '%s' % name if name not in self.vars else '%s!%d' % (name, self.nvars)
        c = z3.Const(full, sort)
        self.vars[full] = c
        return c

    def real(self, name, lo=None, hi=None):
        c = self._fresh(name, R)
        if lo is not None:
            self.assume(c >= _lift(lo))
        if hi is not None:
            self.assume(c <= _lift(hi))
        return SymNum(c)

    def int(self, name, lo=None, hi=None):
        c = self._fresh(name, I)
        if lo is not None:
            self.assume(c >= lo)
        if hi is not None:
            self.assume(c <= hi)
        return SymNum(z3.ToReal(c), is_int=True, rng=(lo, hi))

    def bool(self, name):
        return SymBool(self._fresh(name, B))

    def assume(self, cond):
        if isinstance(cond, SymBool):
            cond = cond.b
        if isinstance(cond, bool):
            if not cond:
                raise Abort('assume False')
            return
        self.solver.add(cond)
        if self.model is not None:
            try:
                if not z3.is_true(self.model.eval(cond, model_completion=True)):
                    self.model = None
            except z3.Z3Exception:
                self.model = None

    # ---- solver ----------------------------------------------------------
    def check(self, *extra, timeout_ms=None):
        st = self.stats
        if self.deadline is not None and time.time() > self.deadline:
            raise Abort('time budget')
        st.queries += 1
        if timeout_ms is not None:
            self.solver.set('timeout', timeout_ms)
        t = time.time()
        r = self.solver.check(*extra)
        st.solver_s += time.time() - t
        if timeout_ms is not None:
            self.solver.set('timeout', self.timeout_ms)
        s = str(r)
        if s == 'sat':
            st.q_sat += 1
        elif s == 'unsat':
            st.q_unsat += 1
        else:
            st.q_unknown += 1
        return s

    def _feasible(self, cond):
        """(feasible?, model or None) for path_condition AND cond.  unknown counts as
        feasible (the end-of-path queries include the path condition again)."""
        if self.model is not None:
            try:
                if z3.is_true(self.model.eval(cond, model_completion=True)):
                    return True, self.model
            except z3.Z3Exception:
                pass
        r = self.check(cond)
        if r == 'sat':
            return True, self.solver.model()
        if r == 'unknown':
            self.unknown_feas += 1
            return True, None
        return False, None

    # ---- decisions -------------------------------------------------------
    def _take(self, n_alts_fn, describe=None):
        """Generic n-way decision.  n_alts_fn() -> list of feasible alternative
        keys (computed only at a fresh decision).  Returns the chosen key."""
        i = len(self.trail)
        if i >= self.depth_limit:
            raise Abort('decision depth')
        self.stats.decisions += 1
        if i < len(self.prefix):
            key = self.prefix[i]
            self.trail.append([key, None])
            return key
        feas = n_alts_fn()
        if not feas:
            raise Abort('infeasible')
        key = feas[0]
        self.trail.append([key, feas[1:]])
        return key

    def decide(self, cond):
        """cond: z3 Bool -> Python bool, forking when both are feasible."""
        cond = z3.simplify(cond)
        if z3.is_true(cond):
            return True
        if z3.is_false(cond):
            return False
        ncond = z3.Not(cond)

        models = {}

        def alts():
            out = []
            for v, c in ((True, cond), (False, ncond)):
                ok, m = self._feasible(c)
                if ok:
                    out.append(v)
                    models[v] = m
            return out
        val = self._take(alts)
        c = cond if val else ncond
        self.solver.add(c)
        if val in models:
            self.model = models[val]
        elif self.model is not None:
            try:
                if not z3.is_true(self.model.eval(c, model_completion=True)):
                    self.model = None
            except z3.Z3Exception:
                self.model = None
        return val

    def choose(self, n, name='choice'):
        """Unconstrained finite choice 0..n-1 (a choice variable)."""
        if n <= 0:
            raise Abort('empty choice')
        if n == 1:
            return 0
        k = self._take(lambda: list(range(n)))
        self.notes.append((name, k))
        return k

    def pick(self, options, name='pick'):
        return options[self.choose(len(options), name)]

    def concretize_int(self, e, lo=None, hi=None, what='int'):
        """Fork over the feasible integer values of real term e (must be integral)."""
        e = z3.simplify(e)
        if z3.is_rational_value(e):
            f = Fraction(e.numerator_as_long(), e.denominator_as_long())
            return math.floor(f)
        if z3.is_int_value(e):
            return e.as_long()
        fl = z3.ToInt(e)

        def alts():
            # enumerate feasible values with the solver
            vals = []
            self.solver.push()
            try:
                if lo is not None:
                    self.solver.add(fl >= lo)
                if hi is not None:
                    self.solver.add(fl <= hi)
                while len(vals) < 64:
                    r = self.check()
                    if r != 'sat':
                        if r == 'unknown':
                            self.unknown_feas += 1
                        break
                    v = self.solver.model().eval(fl, model_completion=True).as_long()
                    vals.append(v)
                    self.solver.add(fl != v)
            finally:
                self.solver.pop()
            vals.sort()
            # anything outside [lo, hi]?  -> one extra alternative "out of bound"
            if lo is not None or hi is not None:
                oob = []
                if lo is not None:
                    oob.append(fl < lo)
                if hi is not None:
                    oob.append(fl > hi)
                if self.check(z3.Or(*oob)) != 'unsat':
                    vals.append('oob')
            return vals
        v = self._take(alts)
        if v == 'oob':
            c = z3.Or(*([fl < lo] if lo is not None else []) + ([fl > hi] if hi is not None else []))
            self.solver.add(c)
            self.model = None
            raise Abort('%s out of bound [%s,%s]' % (what, lo, hi))
        self.solver.add(fl == v)
        self.model = None
        return v

    # ---- end-of-path assertions -----------------------------------------
    def prove(self, prop, timeout_ms=None):
        """Returns ('unsat'|'sat'|'unknown', model_or_None) for pc AND NOT prop."""
        if isinstance(prop, SymBool):
            prop = prop.b
        if isinstance(prop, bool):
            if prop:
                self.stats.proved += 1
                return 'unsat', None
            r = self.check(timeout_ms=timeout_ms)
            if r == 'sat':
                self.stats.refuted += 1
                return 'sat', self.solver.model()
            if r == 'unsat':
                self.stats.proved += 1
                return 'unsat', None
            self.stats.inconclusive += 1
            return 'unknown', None
        neg = z3.simplify(z3.Not(prop))
        if z3.is_false(neg):
            self.stats.proved += 1
            return 'unsat', None
        r = self.check(neg, timeout_ms=timeout_ms)
        if r == 'sat':
            self.stats.refuted += 1
            return 'sat', self.solver.model()
        if r == 'unsat':
            self.stats.proved += 1
            return 'unsat', None
        self.stats.inconclusive += 1
        return 'unknown', None

    def path_model(self):
        r = self.check()
        return self.solver.model() if r == 'sat' else None

    def model_values(self, model):
        """name -> python value (int / Fraction / bool) for all declared vars."""
        out = {}
        for name, c in self.vars.items():
            v = model.eval(c, model_completion=True)
            out[name] = z3_to_py(v)
        return out


def z3_to_py(v):
    if z3.is_true(v):
        return True
    if z3.is_false(v):
        return False
    if z3.is_int_value(v):
        return v.as_long()
    if z3.is_rational_value(v):
        f = Fraction(v.numerator_as_long(), v.denominator_as_long())
        return int(f) if f.denominator == 1 else f
    if z3.is_algebraic_value(v):
        a = v.approx(20)
        return Fraction(a.numerator_as_long(), a.denominator_as_long())
    if z3.is_bv_value(v):
        return v.as_long()
    return str(v)


def explore(harness, max_paths=None, timeout_ms=5000, stats=None, round_mode='exact',
            deadline=None):
    """Depth-first exploration.  harness(ctx) runs one path and returns a result
    (or raises Abort).  Yields (ctx, result_or_Abort).  After exhaustion the
    generator returns; `explore.last_exhaustive` tells whether the space was
    exhausted."""
    stats = stats if stats is not None else Stats()
    frames = []          # [chosen, remaining] mirrors of the trail
    n = 0
    explore.last_exhaustive = False
    while True:
        ctx = Ctx(prefix=[f[0] for f in frames], timeout_ms=timeout_ms, stats=stats,
                  round_mode=round_mode)
        ctx.deadline = deadline
        Ctx.cur = ctx
        try:
            res = harness(ctx)
        except Abort as a:
            res = a
            stats.aborted += 1
        finally:
            Ctx.cur = None
        n += 1
        stats.paths += 1
        stats.max_depth = max(stats.max_depth, len(ctx.trail))
        # merge trail into frames
        for i, (key, rem) in enumerate(ctx.trail):
            if i >= len(frames):
                frames.append([key, list(rem or [])])
        del frames[len(ctx.trail):]
        Ctx.cur = ctx
        ctx.deadline = None if deadline is None else deadline + 20   # grace for the end-of-path queries
        try:
            yield ctx, res
        finally:
            Ctx.cur = None
        while frames and not frames[-1][1]:
            frames.pop()
        if not frames:
            explore.last_exhaustive = True
            return
        if (max_paths is not None and n >= max_paths) or (deadline and time.time() > deadline):
            return
        f = frames[-1]
        f[0] = f[1].pop(0)


explore.last_exhaustive = False


# ---------------------------------------------------------------------------
def _lift(x):
    """python/proxy number -> z3 Real term; TypeError if not numeric."""
    if isinstance(x, SymNum):
        return x.e
    if isinstance(x, SymBool):
        return z3.If(x.b, z3.RealVal(1), z3.RealVal(0))
    if isinstance(x, bool):
        return z3.RealVal(1 if x else 0)
    if isinstance(x, int):
        return z3.RealVal(x)
    if isinstance(x, float):
        if x != x or x in (float('inf'), float('-inf')):
            raise TypeError('non-finite float')
        return z3.RealVal(str(Fraction(x)))
    if isinstance(x, Fraction):
        return z3.RealVal(str(x))
    raise TypeError(type(x))


def is_sym(x):
    return isinstance(x, (SymNum, SymBool))


def _int_like(x):
    if isinstance(x, SymNum):
        return x.is_int
    return isinstance(x, (int, SymBool)) and not isinstance(x, float)


def term(x):
    return _lift(x)


class SymNum:
    """A number whose value is the z3 Real term `e`."""
    __slots__ = ('e', 'is_int', 'rng')

    def __init__(self, e, is_int=False, rng=(None, None)):
        self.e = e
        self.is_int = is_int
        self.rng = rng

    # arithmetic
    def _bin(self, o, f, swap=False, keep_int=True):
        try:
            oe = _lift(o)
        except TypeError:
            return NotImplemented
        a, b = (oe, self.e) if swap else (self.e, oe)
        return SymNum(f(a, b), keep_int and self.is_int and _int_like(o))

    def __add__(s, o): return s._bin(o, operator.add)
    def __radd__(s, o): return s._bin(o, operator.add, True)
    def __sub__(s, o): return s._bin(o, operator.sub)
    def __rsub__(s, o): return s._bin(o, operator.sub, True)
    def __mul__(s, o): return s._bin(o, operator.mul)
    def __rmul__(s, o): return s._bin(o, operator.mul, True)

    def __truediv__(s, o):
        try:
            oe = _lift(o)
        except TypeError:
            return NotImplemented
        if Ctx.cur.decide(oe == 0):
            raise ZeroDivisionError('division by zero')
        return SymNum(s.e / oe)

    def __rtruediv__(s, o):
        try:
            oe = _lift(o)
        except TypeError:
            return NotImplemented
        if Ctx.cur.decide(s.e == 0):
            raise ZeroDivisionError('division by zero')
        return SymNum(oe / s.e)

    @staticmethod
    def _floor_term(e):
        return z3.ToReal(z3.ToInt(e))

    def __floordiv__(s, o):
        try:
            oe = _lift(o)
        except TypeError:
            return NotImplemented
        if Ctx.cur.decide(oe == 0):
            raise ZeroDivisionError('division by zero')
        return SymNum(SymNum._floor_term(s.e / oe), True)

    def __rfloordiv__(s, o):
        oe = _lift(o)
        if Ctx.cur.decide(s.e == 0):
            raise ZeroDivisionError('division by zero')
        return SymNum(SymNum._floor_term(oe / s.e), True)

    def __mod__(s, o):
        # Python: a % b = a - b*floor(a/b)  (sign of b)
        try:
            oe = _lift(o)
        except TypeError:
            return NotImplemented
        if Ctx.cur.decide(oe == 0):
            raise ZeroDivisionError('modulo by zero')
        return SymNum(s.e - oe * SymNum._floor_term(s.e / oe), s.is_int and _int_like(o))

    def __rmod__(s, o):
        oe = _lift(o)
        if Ctx.cur.decide(s.e == 0):
            raise ZeroDivisionError('modulo by zero')
        return SymNum(oe - s.e * SymNum._floor_term(oe / s.e), s.is_int and _int_like(o))

    def __pow__(s, o, mod=None):
        if isinstance(o, SymNum):
            o = Ctx.cur.concretize_int(o.e, 0, 4, 'exponent')
        if isinstance(o, bool) or not isinstance(o, int):
            if isinstance(o, float) and o == int(o):
                o = int(o)
            else:
                raise Abort('unsupported: pow with non-integer exponent')
        if o < 0:
            if Ctx.cur.decide(s.e == 0):
                raise ZeroDivisionError('0 to a negative power')
            r = z3.RealVal(1)
            for _ in range(-o):
                r = r / s.e
            return SymNum(r)
        r = z3.RealVal(1)
        for _ in range(o):
            r = r * s.e
        return SymNum(r, s.is_int)

    def __rpow__(s, o):
        k = Ctx.cur.concretize_int(s.e, 0, 4, 'exponent')
        return o ** k

    def __neg__(s): return SymNum(-s.e, s.is_int)
    def __pos__(s): return s
    def __abs__(s): return SymNum(z3.If(s.e >= 0, s.e, -s.e), s.is_int)

    # comparisons
    def _cmp(s, o, f):
        try:
            oe = _lift(o)
        except TypeError:
            return NotImplemented
        return SymBool(f(s.e, oe))

    def __lt__(s, o): return s._cmp(o, operator.lt)
    def __le__(s, o): return s._cmp(o, operator.le)
    def __gt__(s, o): return s._cmp(o, operator.gt)
    def __ge__(s, o): return s._cmp(o, operator.ge)

    def __eq__(s, o):
        try:
            oe = _lift(o)
        except TypeError:
            return False
        return SymBool(s.e == oe)

    def __ne__(s, o):
        try:
            oe = _lift(o)
        except TypeError:
            return True
        return SymBool(s.e != oe)

    __hash__ = None

    def __bool__(s):
        return Ctx.cur.decide(s.e != 0)

    # rounding
    def __round__(s, ndigits=None):
        if ndigits is not None:
            raise Abort('unsupported: round with ndigits')
        ctx = Ctx.cur
        if s.is_int:
            return s
        if ctx.round_mode == 'elide':
            ctx.elided_rounds += 1
            return SymNum(s.e, False)
        fl = z3.ToInt(s.e)
        flr = z3.ToReal(fl)
        d = s.e - flr
        r = z3.If(d < HALF, flr, z3.If(d > HALF, flr + 1, z3.If(fl % 2 == 0, flr, flr + 1)))
        return SymNum(r, True)

    def __floor__(s):
        return s if s.is_int else SymNum(SymNum._floor_term(s.e), True)

    def __ceil__(s):
        return s if s.is_int else SymNum(-SymNum._floor_term(-s.e), True)

    def __trunc__(s):
        if s.is_int:
            return s
        return SymNum(z3.If(s.e >= 0, SymNum._floor_term(s.e), -SymNum._floor_term(-s.e)), True)

    def __index__(s):
        lo, hi = s.rng
        return Ctx.cur.concretize_int(s.e, -64 if lo is None else lo, 64 if hi is None else hi, 'index')

    def __int__(s):
        t = s.__trunc__()
        return Ctx.cur.concretize_int(t.e, -64, 64, 'int()')

    def __float__(s):
        raise Abort('unsupported: float() of a symbolic number (a C-level function wants a real double)')

    def __repr__(s):
        return 'Sym(%s)' % z3.simplify(s.e)

    def __format__(s, spec):
        hook = FORMAT_HOOK[0]
        if hook is None:
            raise Abort('unsupported: format of a symbolic number')
        return hook(s, spec)

    def __str__(s):
        hook = FORMAT_HOOK[0]
        if hook is None:
            return repr(s)
        return hook(s, '')


FORMAT_HOOK = [None]
numbers.Number.register(SymNum)


class SymBool:
    """A truth value whose value is the z3 Bool term `b` (counts as 1/0 in arithmetic)."""
    __slots__ = ('b',)

    def __init__(self, b):
        self.b = b

    def __bool__(s):
        return Ctx.cur.decide(s.b)

    def _num(s):
        return SymNum(_lift(s), True, (0, 1))

    def __repr__(s):
        return 'SymBool(%s)' % z3.simplify(s.b)

    def __eq__(s, o):
        if isinstance(o, SymBool):
            return SymBool(s.b == o.b)
        if isinstance(o, bool):
            return SymBool(s.b if o else z3.Not(s.b))
        try:
            return SymBool(_lift(s) == _lift(o))
        except TypeError:
            return False

    def __ne__(s, o):
        r = s.__eq__(o)
        if r is False:
            return True
        return SymBool(z3.Not(r.b))

    __hash__ = None

    def __and__(s, o):
        if isinstance(o, SymBool):
            return SymBool(z3.And(s.b, o.b))
        if isinstance(o, bool):
            return s if o else False
        return NotImplemented
    __rand__ = __and__

    def __or__(s, o):
        if isinstance(o, SymBool):
            return SymBool(z3.Or(s.b, o.b))
        if isinstance(o, bool):
            return True if o else s
        return NotImplemented
    __ror__ = __or__

    def __invert__(s):
        return SymBool(z3.Not(s.b))

    def __add__(s, o): return s._num() + o
    def __radd__(s, o): return o + s._num()
    def __sub__(s, o): return s._num() - o
    def __rsub__(s, o): return o - s._num()
    def __mul__(s, o): return s._num() * o
    def __rmul__(s, o): return o * s._num()
    def __truediv__(s, o): return s._num() / o
    def __rtruediv__(s, o): return o / s._num()
    def __mod__(s, o): return s._num() % o
    def __rmod__(s, o): return o % s._num()
    def __pow__(s, o): return s._num() ** o
    def __rpow__(s, o): return o ** s._num()
    def __neg__(s): return -s._num()
    def __lt__(s, o): return s._num() < o
    def __le__(s, o): return s._num() <= o
    def __gt__(s, o): return s._num() > o
    def __ge__(s, o): return s._num() >= o
    def __round__(s, n=None): return s._num()
    def __index__(s): return 1 if bool(s) else 0
    def __int__(s): return 1 if bool(s) else 0


numbers.Number.register(SymBool)


def sym_float(x):
    """Drop-in for the builtin float() in modules analysed in real mode."""
    if isinstance(x, SymNum):
        return SymNum(x.e, False)
    if isinstance(x, SymBool):
        return x._num()
    return float(x)


def sym_int(x):
    if isinstance(x, SymNum):
        return x.__trunc__()
    if isinstance(x, SymBool):
        return x._num()
    return int(x)


# helpers to build formulas over mixed python / proxy numbers -----------------
def eq(a, b):
    """z3 formula: numeric/boolean equality of two (proxy or python) values."""
    if isinstance(a, SymBool) and isinstance(b, (SymBool, bool)) or isinstance(b, SymBool) and isinstance(a, bool):
        ab = a.b if isinstance(a, SymBool) else z3.BoolVal(a)
        bb = b.b if isinstance(b, SymBool) else z3.BoolVal(b)
        return ab == bb
    if not is_sym(a) and not is_sym(b):
        return z3.BoolVal(bool(a == b) and (isinstance(a, str) == isinstance(b, str)))
    try:
        return _lift(a) == _lift(b)
    except TypeError:
        return z3.BoolVal(False)


def within(a, b, tol):
    d = _lift(a) - _lift(b)
    t = _lift(tol)
    return z3.And(d <= t, -d <= t)


def truth(x):
    """z3 Bool for Python truthiness of a proxy/python value."""
    if isinstance(x, SymBool):
        return x.b
    if isinstance(x, SymNum):
        return x.e != 0
    return z3.BoolVal(bool(x))


def concrete(x, model):
    """Evaluate a proxy (or nested list of proxies) under a model -> python numbers."""
    if isinstance(x, SymNum):
        return z3_to_py(model.eval(x.e, model_completion=True))
    if isinstance(x, SymBool):
        return z3_to_py(model.eval(x.b, model_completion=True))
    if isinstance(x, (list, tuple)):
        return type(x)(concrete(y, model) for y in x)
    if isinstance(x, dict):
        return {k: concrete(v, model) for k, v in x.items()}
    return x


def explore_forked(harness, on_path, max_paths=None, timeout_ms=5000, stats=None, round_mode='exact', deadline=None):
    """Like explore(), but every path runs in a freshly forked child process, so that state the
    code under analysis keeps at module or class level cannot leak from one path into the next
    (or into the replay of a counterexample).  on_path(ctx, result_or_Abort) runs in the child and
    must return something picklable; the generator yields those values."""
    import os
    import pickle
    stats = stats if stats is not None else Stats()
    frames = []
    n = 0
    explore.last_exhaustive = False
    while True:
        r, w = os.pipe()
        pid = os.fork()
        if pid == 0:
            os.close(r)
            code = 0
            try:
                st = Stats()
                ctx = Ctx(prefix=[f[0] for f in frames], timeout_ms=timeout_ms, stats=st, round_mode=round_mode)
                ctx.deadline = deadline
                Ctx.cur = ctx
                try:
                    res = harness(ctx)
                except Abort as a:
                    res = a
                    st.aborted += 1
                summary = on_path(ctx, res)
                payload = pickle.dumps(([(k, list(rem or [])) if rem is not None else (k, None) for k, rem in ctx.trail],
                                        summary, st.__dict__))
            except BaseException as ex:         # noqa
                import traceback
                payload = pickle.dumps((None, 'child failed: %s: %s\n%s' % (type(ex).__name__, ex, traceback.format_exc()[-800:]), {}))
                code = 1
            with os.fdopen(w, 'wb') as f:
                f.write(payload)
            os._exit(code)
        os.close(w)
        with os.fdopen(r, 'rb') as f:
            data = f.read()
        os.waitpid(pid, 0)
        trail, summary, sd = pickle.loads(data) if data else (None, 'child died without a result', {})
        n += 1
        stats.paths += 1
        for k, v in sd.items():
            if k == 'max_depth':
                stats.max_depth = max(stats.max_depth, v)
            elif k != 'paths':
                setattr(stats, k, getattr(stats, k) + v)
        if trail is None:
            yield ('error', summary)
            return
        stats.max_depth = max(stats.max_depth, len(trail))
        for i, (key, rem) in enumerate(trail):
            if i >= len(frames):
                frames.append([key, list(rem or [])])
        del frames[len(trail):]
        yield ('ok', summary)
        while frames and not frames[-1][1]:
            frames.pop()
        if not frames:
            explore.last_exhaustive = True
            return
        if (max_paths is not None and n >= max_paths) or (deadline and time.time() > deadline):
            return
        f = frames[-1]
        f[0] = f[1].pop(0)


def run_in_child(fn):
    """Run fn() in a freshly forked process and return its (picklable) result."""
    import os
    import pickle
    r, w = os.pipe()
    pid = os.fork()
    if pid == 0:
        os.close(r)
        try:
            payload = pickle.dumps(('ok', fn()))
        except BaseException as ex:     # noqa
            payload = pickle.dumps(('error', '%s: %s' % (type(ex).__name__, ex)))
        with os.fdopen(w, 'wb') as f:
            f.write(payload)
        os._exit(0)
    os.close(w)
    with os.fdopen(r, 'rb') as f:
        data = f.read()
    os.waitpid(pid, 0)
    kind, val = pickle.loads(data) if data else ('error', 'child died')
    if kind == 'error':
        raise RuntimeError('child process failed: %s' % val)
    return val


def run_in_child_timed(fn, limit_s):
    """Like run_in_child, but gives up after limit_s seconds: returns ('timeout', None) after killing the child,
    else ('ok', result) or ('error', text)."""
    import os
    import pickle
    import select
    import signal
    import time as _time
    r, w = os.pipe()
    pid = os.fork()
    if pid == 0:
        os.close(r)
        try:
            payload = pickle.dumps(('ok', fn()))
        except BaseException as ex:     # noqa
            payload = pickle.dumps(('error', '%s: %s' % (type(ex).__name__, ex)))
        with os.fdopen(w, 'wb') as f:
            f.write(payload)
        os._exit(0)
    os.close(w)
    data = b''
    end = _time.time() + limit_s
    with os.fdopen(r, 'rb', buffering=0) as f:
        while True:
            left = end - _time.time()
            if left <= 0:
                os.kill(pid, signal.SIGKILL)
                os.waitpid(pid, 0)
                return 'timeout', None
            ready, _, _ = select.select([f], [], [], min(left, 0.5))
            if ready:
                chunk = f.read(65536)
                if not chunk:
                    break
                data += chunk
    os.waitpid(pid, 0)
    kind, val = pickle.loads(data) if data else ('error', 'child died')
    return kind, val

