"""Program shapes: size-bounded enumeration / seeded selection of program ASTs.

A generator function draws all its decisions from a `Chooser`.  `enumerate_all`
runs it once per complete decision vector (depth-first, exhaustive);
`sample` runs it with a seeded random chooser.  Shapes are concrete programs
whose numbers are symbolic literals (refsem.Num with a sentinel id).
"""
import random

from . import refsem as R

N = R.Num


class Chooser:
    def __init__(self, prefix=(), rng=None):
        self.prefix = list(prefix)
        self.trail = []
        self.rng = rng

    def choose(self, n, weights=None):
        if n <= 1:
            return 0
        i = len(self.trail)
        if i < len(self.prefix):
            k = self.prefix[i]
        elif self.rng is not None:
            k = self.rng.choices(range(n), weights)[0] if weights else self.rng.randrange(n)
        else:
            k = 0
        self.trail.append((k, n))
        return k

    def pick(self, seq, weights=None):
        return seq[self.choose(len(seq), weights)]

    def flag(self, p=0.5):
        return self.choose(2, [1 - p, p]) == 1


def enumerate_all(gen, limit=None):
    """Yield gen(chooser) for every decision vector (exhaustive DFS)."""
    stack = [[]]
    n = 0
    while stack:
        pre = stack.pop()
        ch = Chooser(pre)
        try:
            out = gen(ch)
        except Skip:
            out = None
        tr = ch.trail
        for i in range(len(tr) - 1, len(pre) - 1, -1):
            k, m = tr[i]
            for alt in range(m - 1, k, -1):
                stack.append([c for c, _ in tr[:i]] + [alt])
        if out is not None:
            n += 1
            yield out
            if limit and n >= limit:
                return


def sample(gen, count, seed):
    rng = random.Random(seed)
    out = []
    tries = 0
    seen = set()
    while len(out) < count and tries < count * 20:
        tries += 1
        ch = Chooser(rng=random.Random(rng.randrange(1 << 30)))
        try:
            p = gen(ch)
        except Skip:
            continue
        if p is None:
            continue
        key = repr(p)
        if key in seen:
            continue
        seen.add(key)
        out.append(p)
    return out


class Skip(Exception):
    pass


class Env:
    """Bookkeeping while a program is generated."""

    def __init__(self, ch, vocab='full'):
        self.ch = ch
        self.vocab = vocab
        self.sid = 0
        self.loop_depth = 0
        self.in_routine = False
        self.vars = []          # readable numeric variables in the current scope
        self.readonly = set()   # loop variables: never assigned by generated code
        self.routines = []      # (name, nparams, returns_value)
        self.counter = 0

    def num(self, kind):
        self.sid += 1
        return N(sid=self.sid, kind=kind)

    def fresh(self, base):
        self.counter += 1
        return '%s%d' % (base, self.counter)


LIGHT_OPERANDS = [
    ('light', 'A'), ('light', 'B'), ('group', 'G1'), ('location', 'L1'), ('light', 'Q'),
    ('group', 'G2'), ('group', 'Nope'),
]


def prologue(env, regs=True):
    out = []
    if regs:
        out += [R.SetReg('hue', env.num('hue')), R.SetReg('saturation', env.num('pct')),
                R.SetReg('brightness', env.num('pct')), R.SetReg('kelvin', env.num('kelvin')),
                R.SetReg('duration', env.num('dur')), R.SetReg('time', env.num('time'))]
    out.append(R.Assign('x', env.num('val')))
    env.vars.append('x')
    return out


CORE_OPERANDS = ['all', [('light', 'A')], [('group', 'G1')], [('light', 'A'), ('group', 'G1')]]


def assignable(env):
    return [v for v in env.vars if v not in env.readonly]


def gen_operands(env):
    ch = env.ch
    if env.vocab == 'core':
        o = ch.pick(CORE_OPERANDS)
        return o if o == 'all' else [R.Operand(k, R.Str(n)) for k, n in o]
    k = ch.choose(4, [3, 4, 2, 1])
    if k == 0:
        return 'all'
    if k == 1:
        kind, name = ch.pick(LIGHT_OPERANDS)
        return [R.Operand(kind, R.Str(name))]
    if k == 2:
        a = ch.pick(LIGHT_OPERANDS)
        b = ch.pick(LIGHT_OPERANDS)
        return [R.Operand(a[0], R.Str(a[1])), R.Operand(b[0], R.Str(b[1]))]
    return [R.Operand('light', R.Str('Z'), zone=(env.num('zone'), env.num('zone') if ch.flag() else None))]


def gen_cond(env):
    ch = env.ch
    if env.vocab == 'core':
        return R.Bin('>', R.Var(env.vars[0]), env.num('val'))
    v = R.Var(ch.pick(env.vars))
    op = ch.pick(['>', '<', '>=', '==', '!=', 'number', 'difference'], [3, 3, 1, 1, 1, 1, 1])
    if op == 'number':
        return v                     # a number as a condition: false when zero, true otherwise
    if op == 'difference':
        return R.Bin('-', v, env.num('int'))
    return R.Bin(op, v, env.num('val'))


def gen_simple(env):
    """A non-compound statement."""
    ch = env.ch
    if env.vocab == 'core':
        k = ch.choose(5)
        if k == 0:
            return R.Action(ch.pick(['set', 'on']), gen_operands(env))
        if k == 1:
            return R.SetReg('hue', env.num('hue'))
        if k == 2:
            return R.SetReg('time', env.num('time'))
        if k == 3:
            return R.Assign('x', R.Bin('-', R.Var('x'), env.num('int')))
        return R.Print(R.Var('x'), ln=False)
    k = ch.choose(8, [5, 3, 3, 1, 2, 2, 1, 1])
    if k == 0:
        what = ch.pick(['set', 'on', 'off'], [3, 1, 1])
        ops = gen_operands(env)
        if what != 'set' and isinstance(ops, list) and any(o.zone for o in ops):
            what = 'set'
        return R.Action(what, ops)
    if k == 1:
        reg, kind = ch.pick([('hue', 'hue'), ('brightness', 'pct'), ('duration', 'dur'), ('time', 'time')])
        if ch.flag(0.3):
            return R.SetReg(reg, R.Bin('+', R.Reg(reg), N(value=1)))
        return R.SetReg(reg, env.num(kind))
    if k == 2:
        v = ch.pick(assignable(env))
        op = ch.pick(['+', '-', '*'])
        return R.Assign(v, R.Bin(op, R.Var(v), env.num('int')))
    if k == 3:
        return R.Wait()
    if k == 4:
        return R.Print(R.Var(ch.pick(env.vars)), ln=ch.flag())
    if k == 5:
        return R.SetReg('hue', R.Var(ch.pick(env.vars)))
    if k == 6:
        return R.Get(R.Str(ch.pick(['A', 'B', 'Q'])))
    return R.Units(ch.pick(['raw', 'logical', 'rgb'], [3, 3, 1]))


def gen_stmt(env, budget, depth):
    """-> (stmt list, cost)"""
    ch = env.ch
    kinds = ['simple']
    weights = [6]
    if budget >= 2 and depth > 0:
        kinds += ['if', 'ifelse', 'repeat_n', 'while', 'with']
        weights += [2, 2, 2, 1, 1]
        if env.routines:
            pass
    if env.loop_depth > 0:
        kinds.append('break')
        weights.append(1)
    if env.routines:
        kinds.append('call')
        weights.append(3)
    if env.in_routine:
        kinds.append('return')
        weights.append(1)
    k = ch.pick(kinds, weights)
    if k == 'simple':
        return [gen_simple(env)], 1
    if k == 'break':
        return [R.If(gen_cond(env), [R.Break()])], 1
    if k == 'return':
        # a routine that is used for its value returns a value on every path
        return [R.If(gen_cond(env), [R.Return(R.Var(ch.pick(env.vars)) if getattr(env, 'returns_value', False) else None)])], 1
    if k == 'call':
        name, np, rv = ch.pick(env.routines)
        args = [env.num('val') if ch.flag() else R.Var(ch.pick(env.vars)) for _ in range(np)]
        if rv and ch.flag():
            return [R.Assign(ch.pick(assignable(env)), R.CallE(name, args))], 1
        return [R.Call(name, args, bracket=ch.flag(0.3))], 1
    saved_vars = list(env.vars)
    try:
        if k == 'if':
            cond = gen_cond(env)
            body, c = gen_block(env, budget - 1, depth - 1, minimum=1)
            return [R.If(cond, body)], 1 + c
        if k == 'ifelse':
            cond = gen_cond(env)
            b1, c1 = gen_block(env, max(1, (budget - 1) // 2), depth - 1, minimum=1)
            env.vars = list(saved_vars)
            b2, c2 = gen_block(env, max(1, budget - 1 - c1), depth - 1, minimum=1)
            return [R.If(cond, b1, b2)], 1 + c1 + c2
        env.loop_depth += 1
        try:
            if k == 'repeat_n':
                n = env.num('count')
                body, c = gen_block(env, budget - 1, depth - 1, minimum=1)
                return [R.Repeat('count', body, n=n)], 1 + c
            if k == 'while':
                cv = env.fresh('c')
                pre = R.Assign(cv, env.num('count'))
                env.vars.append(cv)
                env.readonly.add(cv)
                body, c = gen_block(env, budget - 1, depth - 1, minimum=1)
                body = body + [R.Assign(cv, R.Bin('-', R.Var(cv), N(value=1)))]
                return [pre, R.Repeat('while', body, cond=R.Bin('>', R.Var(cv), N(value=0)))], 2 + c
            if k == 'with':
                iv = env.fresh('i')
                a, b = env.num('int'), env.num('int')
                env.vars.append(iv)
                env.readonly.add(iv)
                body, c = gen_block(env, budget - 1, depth - 1, minimum=1)
                return [R.Repeat('with', body, var=iv, a=a, b=b)], 1 + c
        finally:
            env.loop_depth -= 1
    finally:
        env.vars = saved_vars
    raise ValueError(k)


def gen_block(env, budget, depth, minimum=0):
    out = []
    used = 0
    while used < budget:
        if len(out) >= max(minimum, 1) and env.ch.flag(0.35):
            break
        st, c = gen_stmt(env, budget - used, depth)
        out += st
        used += c
    return out, used


def gen_routine(env, budget, depth):
    ch = env.ch
    name = env.fresh('r')
    np = ch.choose(3, [2, 3, 1])
    params = ['p', 'q'][:np]
    saved = (env.vars, env.in_routine, env.loop_depth)
    env.vars = list(params) + ['x']
    env.in_routine = True
    env.loop_depth = 0
    rv = ch.flag(0.5)
    env.returns_value = rv
    body, c = gen_block(env, budget, depth, minimum=1)
    if rv:
        body = body + [R.Return(R.Bin('+', R.Var(ch.pick(env.vars)), N(value=1)))]
    env.vars, env.in_routine, env.loop_depth = saved
    env.routines.append((name, np, rv))
    return R.RoutineDef(name, params, body), 1 + c


def general_program(size, depth=2, routines=True, vocab='full'):
    """Generator of C01-style programs with `size` statement nodes (approx.)."""
    def gen(ch):
        env = Env(ch, vocab)
        stmts = prologue(env)
        budget = size
        if routines and budget >= 3 and ch.flag(0.5):
            rd, c = gen_routine(env, max(1, budget // 2), depth - 1)
            # definition position: before or between statements
            first, c1 = ([], 0)
            if ch.flag(0.4):
                first, c1 = gen_stmt(env_without_routines(env), 1, 0)
            stmts += first + [rd]
            budget -= c + c1
        body, _ = gen_block(env, max(1, budget), depth, minimum=1)
        stmts += body
        return stmts
    return gen


def env_without_routines(env):
    class _E:
        pass
    e = Env(env.ch)
    e.__dict__.update(env.__dict__)
    e.routines = []
    # share sid/counter bookkeeping through the original env afterwards
    orig_num, orig_fresh = env.num, env.fresh
    e.num = orig_num
    e.fresh = orig_fresh
    return e


# ---------------------------------------------------------------- C03 -------
def routine_program(size=3, two_routines=True, recursion=False):
    """Routines, parameters hiding globals, locals, returns at depth, nested and
    recursive calls.  Every variable of interest is printed before, inside and
    after the calls so that scope errors become trace differences."""
    GLOBALS = ['x', 'y', 'g']
    PARAMSETS = [(), ('x',), ('y',), ('x', 'y'), ('y', 'x'), ('p',), ('p', 'x'), ('x', 'p')]

    def gen(ch):
        env = Env(ch)
        stmts = [R.Assign(v, env.num('int')) for v in GLOBALS]
        routines = {}

        def expr(names):
            k = ch.choose(4, [2, 3, 2, 1])
            if k == 0:
                return env.num('int')
            if k == 1:
                return R.Var(ch.pick(names))
            if k == 2:
                return R.Bin(ch.pick(['+', '-']), R.Var(ch.pick(names)), env.num('int'))
            return R.Bin('*', R.Var(ch.pick(names)), N(value=2))

        def call_args(callee, names, allow_nested):
            args = []
            for _ in routines[callee][0]:
                if allow_nested and ch.flag(0.2):
                    inner = ch.pick([r for r in routines if routines[r][1]] or [None])
                    if inner is not None:
                        args.append(R.CallE(inner, call_args(inner, names, False)))
                        continue
                args.append(expr(names))
            return args

        def body(params, budget, self_name=None, callees=()):
            names = list(params) + GLOBALS
            locs = []
            out = []
            depth_cnt = [0]

            def simple(names_now, in_loop):
                k = ch.choose(5, [4, 2, 2, 2, 1])
                if k == 0:
                    tgt = ch.pick(list(params) + GLOBALS + ['t'])
                    if tgt == 't' and 't' not in locs:
                        locs.append('t')
                    e = expr(names_now)
                    return R.Assign(tgt, e)
                if k == 1:
                    return R.Print(R.Var(ch.pick(names_now)), ln=True)
                if k == 2 and callees:
                    c = ch.pick(list(callees))
                    return R.Call(c, call_args(c, names_now, True), bracket=ch.flag(0.3))
                if k == 3:
                    return R.Return(expr(names_now))
                return R.Assign(ch.pick(list(params) or GLOBALS), expr(names_now))

            used = 0
            while used < budget:
                names_now = names + locs
                k = ch.choose(4, [4, 2, 2, 1])
                if k == 0:
                    out.append(simple(names_now, False))
                    used += 1
                elif k == 1:
                    inner = [simple(names_now, False)]
                    out.append(R.If(R.Bin(ch.pick(['>', '<']), R.Var(ch.pick(names_now)), env.num('int')), inner))
                    used += 2
                elif k == 2:
                    inner = [simple(names_now, True)]
                    if ch.flag(0.3):
                        inner = [R.If(R.Bin('>', R.Var(ch.pick(names_now)), env.num('int')), inner)]
                    out.append(R.Repeat('count', inner, n=N(value=ch.pick([1, 2]))))
                    used += 2
                else:
                    inner = [R.Repeat('count', [simple(names_now, True)], n=N(value=2))]
                    out.append(R.Repeat('count', inner, n=N(value=ch.pick([1, 2]))))
                    used += 3
            # show what the routine sees at the end
            for v in list(params)[:2] + ['x']:
                if v in names:
                    out.append(R.Print(R.Var(v), ln=True))
            return out

        fparams = ch.pick(PARAMSETS)
        routines['f'] = (fparams, True)
        fbody = body(fparams, size, 'f')
        fbody.append(R.Return(R.Bin('+', R.Var((list(fparams) + ['g'])[0]), N(value=1))))
        stmts.append(R.RoutineDef('f', list(fparams), fbody))
        callers = ['f']
        if two_routines and ch.flag(0.6):
            kparams = ch.pick([(), ('x',), ('q',), ('y',)])
            routines['k'] = (kparams, True)
            kbody = body(kparams, max(1, size - 1), 'k', callees=('f',))
            c = R.Call('f', call_args('f', list(kparams) + GLOBALS, False))
            kbody.insert(ch.choose(len(kbody) + 1), c)
            kbody.append(R.Return(R.CallE('f', call_args('f', list(kparams) + GLOBALS, False))))
            stmts.append(R.RoutineDef('k', list(kparams), kbody))
            callers.append('k')
        if recursion and ch.flag(0.5):
            routines['rec'] = (('n',), True)
            rb = [R.If(R.Bin('>', R.Var('n'), N(value=0)),
                       [R.Print(R.Var('n'), ln=True),
                        R.Assign('g', R.Bin('+', R.Var('g'), R.Var('n'))),
                        R.Call('rec', [R.Bin('-', R.Var('n'), N(value=1))]),
                        R.Print(R.Var('n'), ln=True)]),
                  R.Return(R.Var('n'))]
            stmts.append(R.RoutineDef('rec', ['n'], rb))
            stmts.append(R.Call('rec', [env.num('count')]))
        # main: show, call, show
        show = [R.Print(R.Var(v), ln=True) for v in GLOBALS]
        stmts += show
        for _ in range(1 + ch.choose(2)):
            c = ch.pick(callers)
            args = call_args(c, GLOBALS, True)
            style = ch.choose(3)
            if style == 0:
                stmts.append(R.Call(c, args))
            elif style == 1:
                stmts.append(R.Call(c, args, bracket=True))
            else:
                stmts.append(R.Print(R.CallE(c, args), ln=True))
            stmts += [R.Print(R.Var(v), ln=True) for v in GLOBALS]
        return stmts
    return gen


# ---------------------------------------------------------------- C04 -------
POPULATIONS = {
    'none': (),
    'one': (('A', 'G1', 'L1', 'plain'),),
    'two-shared': (('A', 'G1', 'L1', 'plain'), ('B', 'G1', 'L1', 'plain')),
    'three': (('B', 'G1', 'L1', 'plain'), ('A', 'G1', 'L2', 'plain'), ('C', 'G2', 'L1', 'plain')),
    'mixed-case': (('b1', 'attic', 'Loft', 'plain'), ('A1', 'Pole', 'den', 'plain'), ('a2', 'Table', 'Loft', 'plain'), ('B2', 'attic', 'Yard', 'plain')),
    'four': (('D', 'G2', 'L2', 'plain'), ('B', 'G1', 'L1', 'plain'), ('A', 'G1', 'L2', 'plain'),
             ('C', 'G2', 'L1', 'plain')),
}
LOOP_FORMS = ['count', 'count_var', 'with', 'count_with', 'count_cycle', 'count_cycle0', 'while', 'forever',
              'all', 'groups', 'locations', 'in_group', 'in_location', 'in_list', 'in_mixed',
              'all_from', 'all_cycle', 'in_group_from', 'in_list_cycle', 'groups_from']
LIGHT_FORMS = {'all', 'groups', 'locations', 'in_group', 'in_location', 'in_list', 'in_mixed', 'all_from',
               'all_cycle', 'in_group_from', 'in_list_cycle', 'groups_from'}


def make_loop(env, form, inner, level, brk=None):
    """-> list of statements realising loop `form` whose body is
    [prints of the loop variables] + inner (+ break at position brk: None|'first'|'last')."""
    ch = env.ch
    sfx = str(level)
    v, L, cnt = 'v' + sfx, 'lt' + sfx, 'k' + sfx
    pre, shows = [], []
    small = 'count' if level == 0 else 'count2'

    def body_with(shows):
        b = list(shows) + list(inner)
        if brk is not None:
            # a break that fires after a symbolic number of passes
            test = R.If(R.Bin('>=', R.Var(cnt), env.num('count2')), [R.Break()])
            step = R.Assign(cnt, R.Bin('+', R.Var(cnt), N(value=1)))
            b = ([test] + b if brk == 'first' else b + [test]) + [step]
        return b
    if brk is not None:
        pre.append(R.Assign(cnt, N(value=0)))
    if form == 'count':
        return pre + [R.Repeat('count', body_with([R.Print(N(value=7), ln=True)]), n=env.num(small))]
    if form == 'count_var':
        nv = 'n' + sfx
        pre.append(R.Assign(nv, env.num(small)))
        body = body_with([R.Print(R.Var(nv), ln=True), R.Assign(nv, N(value=0))])
        return pre + [R.Repeat('count', body, n=R.Var(nv))]
    if form == 'with':
        a, b = env.num('int3'), env.num('int3')
        if ch.flag(0.3):
            # both bounds are evaluated before the loop variable gets its first value: they may mention the value it had before
            pre.append(R.Assign(v, env.num('int3')))
            b = R.Bin('+', R.Var(v), b)
            if ch.flag():
                a = R.Bin('-', R.Var(v), N(value=1))
        return pre + [R.Repeat('with', body_with([R.Print(R.Var(v), ln=True)]), var=v, a=a, b=b)]
    if form == 'count_with':
        a, b = env.num('val'), env.num('val')
        if ch.flag(0.3):
            pre.append(R.Assign(v, env.num('int3')))
            b = R.Bin('+', R.Var(v), b)
        return pre + [R.Repeat('count_with', body_with([R.Print(R.Var(v), ln=True)]), var=v,
                               n=env.num(small), a=a, b=b)]
    cyc_kind = 'cycraw' if getattr(env, 'raw_units', False) else 'cyc'
    if form in ('count_cycle', 'count_cycle0'):
        return pre + [R.Repeat('count_cycle', body_with([R.Print(R.Var(v), ln=True)]), var=v,
                               n=env.num(small), start=env.num(cyc_kind) if form == 'count_cycle' else None)]
    if form == 'while':
        wv = 'w' + sfx
        pre.append(R.Assign(wv, env.num(small)))
        body = body_with([R.Print(R.Var(wv), ln=True)]) + [R.Assign(wv, R.Bin('-', R.Var(wv), N(value=1)))]
        return pre + [R.Repeat('while', body, cond=R.Bin('>', R.Var(wv), N(value=0)))]
    if form == 'forever':
        wv = 'w' + sfx
        pre.append(R.Assign(wv, env.num(small)))
        body = [R.If(R.Bin('<=', R.Var(wv), N(value=0)), [R.Break()])] + body_with([R.Print(R.Var(wv), ln=True)]) \
            + [R.Assign(wv, R.Bin('-', R.Var(wv), N(value=1)))]
        return pre + [R.Repeat('forever', body)]
    # light iterations
    shows = [R.Print(R.Var(L), ln=True)]
    dist = None
    kind = form
    items = None
    if form in ('all_from', 'in_group_from', 'groups_from'):
        dist = ('from', v, env.num('val'), env.num('val'))
    if form in ('all_cycle', 'in_list_cycle'):
        dist = ('cycle', v, env.num(cyc_kind) if ch.flag() else None)
    if dist is not None:
        shows.append(R.Print(R.Var(v), ln=True))
    if form in ('all', 'all_from', 'all_cycle'):
        kind = 'all'
        shows.append(R.Action('on', [R.Operand('light', R.Var(L))]))
    elif form in ('groups', 'groups_from'):
        kind = 'groups'
        shows.append(R.Action('on', [R.Operand('group', R.Var(L))]))
    elif form == 'locations':
        kind = 'locations'
    else:
        kind = 'in'
        shows.append(R.Action('on', [R.Operand('light', R.Var(L))]))
        if form in ('in_group', 'in_group_from'):
            items = [('group', R.Str(ch.pick(['G1', 'G2', 'Nope'])))]
        elif form == 'in_location':
            items = [('location', R.Str(ch.pick(['L1', 'L2'])))]
        elif form in ('in_list', 'in_list_cycle'):
            items = [('light', R.Str(n)) for n in ch.pick([['B', 'A'], ['C'], ['A', 'C', 'B'], ['A', 'A']])]
        else:
            items = ch.pick([[('light', R.Str('C')), ('group', R.Str('G1'))],
                             [('group', R.Str('G1')), ('location', R.Str('L1'))],
                             [('location', R.Str('L2')), ('light', R.Str('A')), ('group', R.Str('G2'))]])
    return pre + [R.Repeat(kind, body_with(shows), lvar=L, items=items, dist=dist)]


def loop_program(forms=None, nest=True, in_routine=False):
    def gen(ch):
        env = Env(ch)
        f0 = ch.pick(forms or LOOP_FORMS)
        pop = ch.pick(sorted(POPULATIONS)) if f0 in LIGHT_FORMS else 'three'
        stmts = []
        if ch.flag(0.25) or f0 in ('count_cycle', 'count_cycle0', 'all_cycle', 'in_list_cycle') and ch.flag(0.5):
            stmts.append(R.Units('raw'))
            env.raw_units = True
        inner = []
        brk0 = ch.pick([None, 'first', 'last'], [3, 1, 1])
        if nest and ch.flag(0.6):
            f1 = ch.pick(forms or LOOP_FORMS)
            if f1 in LIGHT_FORMS and pop == 'three' and f0 not in LIGHT_FORMS:
                pop = ch.pick(sorted(POPULATIONS))
            brk1 = ch.pick([None, 'first', 'last'], [2, 2, 2])
            inner = make_loop(env, f1, [], 1, brk1)
        loop = make_loop(env, f0, inner, 0, brk0)
        tail = [R.Print(N(value=99), ln=True)]
        if in_routine and ch.flag(0.4):
            # the loop variables may be parameters of the routine that also exist as globals: they stay the
            # routine's own, the globals keep their values
            lvars = []

            def walk(nodes):
                for n in nodes:
                    if isinstance(n, R.Repeat):
                        for v in (getattr(n, 'var', None), getattr(n, 'lvar', None)):
                            if v and v not in lvars:
                                lvars.append(v)
                        walk(n.body)
                    elif isinstance(n, R.If):
                        walk(n.then)
                        walk(n.els or [])
            walk(loop)
            if lvars and ch.flag(0.6):
                stmts += [R.Assign(v, N(value=70 + k)) for k, v in enumerate(lvars)]
                stmts += [R.RoutineDef('lp', list(lvars), loop + tail), R.Call('lp', [N(value=80 + k) for k in range(len(lvars))])]
                stmts += [R.Print(R.Var(v), ln=True) for v in lvars]
            else:
                stmts += [R.RoutineDef('lp', [], loop + tail), R.Call('lp', [])]
        else:
            stmts += loop + tail
        return (pop, stmts)
    return gen


# ---------------------------------------------------------------- C05 -------
def compound_def_program():
    """Routine definitions at every top-level position and inside if / else /
    repeat bodies (the compiler accepts them), with statements around them."""
    def gen(ch):
        env = Env(ch)
        stmts = prologue(env, regs=False)
        mark = [0]

        def m():
            mark[0] += 1
            return R.Print(N(value=100 + mark[0]), ln=True)
        rdef = R.RoutineDef('r', ['p'] if ch.flag() else [],
                            [m()] + ([R.If(R.Bin('>', R.Var('x'), env.num('val')), [m()], [m()])] if ch.flag() else [])
                            + [R.Action('on', 'all')])
        call = R.Call('r', [env.num('val')] if rdef.params else [])
        where = ch.pick(['top-first', 'top-mid', 'if', 'else', 'if-mid', 'repeat', 'while', 'nested-if'])
        pre = [m()] if ch.flag() else []
        post = [m()] if ch.flag() else []
        # a macro defined in the middle of an open if/repeat body (a compile-time constant, used only where it is known to be defined)
        if ch.flag(0.4):
            pre = pre + [R.Define('k1', N(value=7)), R.Print(R.Var('k1'), ln=True)]
        if ch.flag(0.4):
            post = [R.Define('k2', R.Str('two')), R.Print(R.Var('k2'), ln=True)] + post
        inner = pre + [rdef] + post
        if ch.flag(0.4):
            inner = inner + [call]
        cond = R.Bin('>', R.Var('x'), env.num('val'))
        if where == 'top-first':
            body = [rdef, m(), call]
        elif where == 'top-mid':
            body = [m(), rdef, m(), call]
        elif where == 'if':
            body = [R.If(cond, inner), m(), call]
        elif where == 'if-mid':
            body = [R.If(cond, inner, [m()]), m(), call]
        elif where == 'else':
            body = [R.If(cond, [m()], inner), m(), call]
        elif where == 'repeat':
            body = [R.Repeat('count', inner, n=env.num('count2')), m(), call]
        elif where == 'while':
            body = [R.Assign('w', env.num('count2')),
                    R.Repeat('while', inner + [R.Assign('w', R.Bin('-', R.Var('w'), N(value=1)))],
                             cond=R.Bin('>', R.Var('w'), N(value=0))), m(), call]
        else:
            body = [R.If(cond, [m(), R.If(R.Bin('<', R.Var('x'), env.num('val')), inner), m()]), m(), call]
        return stmts + body + [m()]
    return gen


# ---------------------------------------------------------------- C15 -------
def matrix_specs(h, w, zones=8):
    return (('A', 'G1', 'L1', 'plain'), ('Z', 'G2', 'L2', 'multizone', zones), ('M', 'G3', 'L2', 'matrix', 0, h, w))


def addressing_program(h, w, zones=8):
    """Zone ranges and matrix rectangles (inline and block form), bounds given as
    symbolic literals, variables, expressions or loop indices."""
    def gen(ch):
        env = Env(ch)
        doms = {}

        def bound(lo, hi):
            n = env.num('cell')
            doms[n.sid] = ('int', lo, hi)
            if ch.flag(0.12):
                # an integral value that Python computes as a float ({n * 2 / 2}): still a valid row, column or zone number
                return R.Bin('/', R.Bin('*', n, N(value=2)), N(value=2))
            return n
        mode = ch.pick(['logical', 'raw', 'rgb'], [3, 2, 1])
        stmts = []
        if mode != 'logical':
            stmts.append(R.Units(mode))
        regs = ('red', 'green', 'blue') if mode == 'rgb' else ('hue', 'saturation', 'brightness')
        kinds = {'logical': ('hue', 'pct', 'pct'), 'raw': ('raw', 'raw', 'raw'), 'rgb': ('pct', 'pct', 'pct')}[mode]

        def colour():
            return [R.SetReg(r, env.num(k)) for r, k in zip(regs, kinds)] + [R.SetReg('kelvin', env.num('kelvin'))]

        def rng(n, as_var):
            """inclusive range within 0..n-1: (first, last|None)"""
            style = ch.choose(4)
            if style == 0:
                return (bound(0, n - 1), None)
            mid = (n - 1) // 2
            a, b = bound(0, mid), bound(mid, n - 1)
            if style == 2 and as_var:
                stmts.append(R.Assign('ra', a))
                return (R.Var('ra'), b)
            if style == 3:
                return (a, R.Bin('+', a_copy(a), N(value=ch.choose(n - mid))))
            return (a, b)

        def a_copy(a):
            # the same symbolic literal used twice (rendered twice, same sentinel)
            return a
        stmts += colour()
        stmts.append(R.SetReg('duration', env.num('dur')))
        if ch.flag(0.5):
            stmts.append(R.Action('set', 'default'))
            stmts += [R.SetReg(regs[0], env.num(kinds[0]))]
        what = ch.pick(['zone', 'inline', 'block', 'block-loop'], [2, 3, 3, 1])
        if what == 'zone':
            z = rng(zones, True)
            if ch.flag(0.2):
                # a range written backwards down to zone 0: an explicit 0 is an end like any other, not "no end given"
                z = (bound(1, zones - 1), N(value=0))
            ops = [R.Operand('light', R.Str('Z'), zone=z)]
            if ch.flag(0.3):
                ops.append(R.Operand('light', R.Str('A')))
            stmts.append(R.Action('set', ops))
        elif what == 'inline':
            rows = rng(h, True) if ch.flag(0.7) else None
            cols = rng(w, False) if (rows is None or ch.flag(0.6)) else None
            order = ch.pick(['rc', 'cr'])
            stmts.append(R.Action('set', [R.Operand('light', R.Str('M'), matrix=('inline', rows, cols, order))]))
            # the same registers sent by a plain set: the cells must carry exactly that colour
            stmts.append(R.Action('set', [R.Operand('light', R.Str('A'))]))
        elif what == 'block':
            body = []
            for _ in range(ch.choose(4)):
                rows = rng(h, False) if ch.flag(0.7) else None
                # neither clause: the stage covers the whole matrix
                cols = rng(w, False) if ch.flag(0.5 if rows is not None else 0.7) else None
                body.append(R.Stage(rows, cols, ch.pick(['rc', 'cr'])))
                body.append(R.SetReg(regs[0], env.num(kinds[0])))
            stmts.append(R.Action('set', [R.Operand('light', R.Str('M'), matrix=('block', body))]))
        else:
            step = env.num('pct')
            body = [R.Repeat('with', [R.Stage((R.Var('i'), None), None), R.SetReg(regs[1], R.Bin('+', R.Reg(regs[1]), N(value=1)))],
                             var='i', a=N(value=0), b=N(value=h - 1))]
            if ch.flag():
                body.append(R.Stage(None, (bound(0, w - 1), None)))
            stmts.append(R.Action('set', [R.Operand('light', R.Str('M'), matrix=('block', body))]))
        if ch.flag(0.3):
            stmts.append(R.Action('set', [R.Operand('light', R.Str('A'))]))
        return (doms, stmts)
    return gen


# ---------------------------------------------------------------- C19 -------
PRINT_VALUES = [
    lambda env: N(value=5), lambda env: N(value=2.5), lambda env: N(value=0), lambda env: R.Neg(N(value=3)),
    lambda env: R.Str('abc'), lambda env: R.Str('two words'), lambda env: R.Str('C:\\new\\table'), lambda env: R.Str('"q"'), lambda env: R.CallE('noisy', [N(value=3)]), lambda env: R.CallE('shown', []), lambda env: R.Str('say "hi" twice'), lambda env: R.Var('pth'), lambda env: R.Reg('hue'), lambda env: R.Reg('kelvin'),
    lambda env: R.Var('y'), lambda env: R.Var('s'), lambda env: R.Bin('+', R.Var('y'), N(value=1)),
    lambda env: R.Bin('/', R.Var('y'), N(value=2)), lambda env: R.Bin('<', N(value=1), N(value=2)),
    lambda env: R.Bin('and', N(value=1), N(value=0)), lambda env: R.CallE('twice', [N(value=4)]),
]
FIELDS = ['{}', '{:>5}', '{:<4}|', '"{}"', '"', '{name}', '{result:>4}', '{Hue}', '{pc}', '{power}', '{hue}', '{y}', '{s}', '{pth}', '{y:03d}', '{{x}}', 'txt ', '\\n', '{kelvin:>6}']


def output_program():
    def gen(ch):
        env = Env(ch)
        stmts = [R.SetReg('hue', N(value=120)), R.SetReg('saturation', N(value=50)), R.SetReg('kelvin', N(value=2000)),
                 R.Assign('y', N(value=7)), R.Assign('s', R.Str('lamp')), R.Assign('name', R.Str('nm')), R.Assign('result', N(value=41)), R.Assign('Hue', N(value=-1)),
                 R.Assign('pc', N(value=-2)), R.Assign('power', R.Str('pw')), R.Assign('pth', R.Str('a\\nb')), R.Assign('x', env.num('val')),
                 R.RoutineDef('twice', ['v'], [R.Return(R.Bin('*', R.Var('v'), N(value=2)))]),
                 R.RoutineDef('noisy', ['v'], [R.Print(R.Str('in')), R.Return(R.Bin('+', R.Var('v'), N(value=1)))]),
                 R.RoutineDef('shown', [], [R.Printf('[{hue}]', []), R.Return(N(value=7))])]

        def out_stmt(last):
            k = ch.choose(5, [3, 3, 1, 3, 1])
            if k == 0:
                return [R.Print(ch.pick(PRINT_VALUES)(env))]
            if k == 1:
                return [R.Print(ch.pick(PRINT_VALUES)(env), ln=True)]
            if k == 2:
                return [R.Print(None, ln=True)]
            if k == 3:
                nf = 1 + ch.choose(4)
                parts = [ch.pick(FIELDS) for _ in range(nf)]
                if ch.flag(0.2):
                    # numbered fields, each index once, in reverse order
                    n = 2 + ch.choose(2)
                    parts = ['{%d}' % i for i in reversed(range(n))]
                if parts[0] == '\\n':
                    parts[0] = 'a'
                if parts[-1] == '\\n':
                    parts[-1] = 'z'
                fmt = ' '.join(parts) if ch.flag(0.7) else ''.join(parts)
                nargs = sum(1 for p in (q.strip('"') for q in parts) if p.startswith('{') and not p.startswith('{{') and
                            (p[1] in '}:' or p[1].isdigit()))
                args = [ch.pick(PRINT_VALUES[:16])(env) if ch.flag(0.9) else N(value=-4) for _ in range(nargs)]
                # keep the line state unambiguous: printf is followed by an explicit line end
                return [R.Printf(fmt, args), R.Print(None, ln=True)]
            return [R.Action('on', [R.Operand('light', R.Str('A'))])]
        n = 2 + ch.choose(4)
        body = []
        for i in range(n):
            st = out_stmt(i == n - 1)
            wrap = ch.choose(4, [5, 2, 1, 1])
            if wrap == 1:
                st = [R.If(R.Bin('>', R.Var('x'), env.num('val')), st, out_stmt(False) if ch.flag() else None)]
            elif wrap == 2:
                st = [R.Repeat('count', st, n=env.num('count2'))]
            elif wrap == 3:
                st = [R.Repeat('with', st + [R.Print(R.Var('i'))], var='i', a=N(value=1), b=N(value=2))]
            body += st
        return stmts + body
    return gen


def return_from_loops_program():
    """C03: `return v` from any depth of loop nesting (counted and light-iteration loops) must end
    only the call and leave the caller's loops and pending expression operands intact."""
    def gen(ch):
        env = Env(ch)
        outer = ch.pick(['list', 'all', 'count', 'group'])
        inner = ch.pick([None, 'count', 'list'])
        body_ret = [R.If(R.Bin('>=', R.Var('k'), R.Var('w')), [R.Return(R.Bin('+', R.Var('k'), N(value=100)))]),
                    R.Assign('k', R.Bin('+', R.Var('k'), N(value=1)))]
        if inner == 'count':
            body = [R.Repeat('count', body_ret, n=N(value=2))]
        elif inner == 'list':
            body = [R.Repeat('in', body_ret, lvar='il', items=[('light', R.Str('B')), ('light', R.Str('A'))])]
        else:
            body = body_ret
        if outer == 'list':
            loop = R.Repeat('in', body, lvar='ol', items=[('light', R.Str('A')), ('light', R.Str('B')), ('light', R.Str('C'))])
        elif outer == 'all':
            loop = R.Repeat('all', body, lvar='ol')
        elif outer == 'group':
            loop = R.Repeat('in', body, lvar='ol', items=[('group', R.Str('G1'))])
        else:
            loop = R.Repeat('count', body, n=N(value=3))
        find = R.RoutineDef('find', ['w'], [R.Assign('k', N(value=0)), loop, R.Return(N(value=0))])
        stmts = [find]
        arg = lambda: env.num('count')
        style = ch.pick(['in-light-loop', 'operand', 'statement-then-loop', 'argument', 'in-count-loop'])
        if style == 'in-light-loop':
            stmts.append(R.Repeat('in', [R.Print(R.Var('mine'), ln=True), R.Print(R.CallE('find', [arg()]), ln=True)], lvar='mine',
                                  items=[('light', R.Str('C')), ('light', R.Str('A'))]))
        elif style == 'operand':
            stmts.append(R.Print(R.Bin('+', N(value=10), R.CallE('find', [arg()])), ln=True))
            stmts.append(R.Print(R.Bin('-', R.CallE('find', [arg()]), R.CallE('find', [arg()])), ln=True))
        elif style == 'statement-then-loop':
            stmts.append(R.Call('find', [arg()]))
            stmts.append(R.Repeat('all', [R.Print(R.Var('mine'), ln=True)], lvar='mine'))
        elif style == 'argument':
            stmts.append(R.RoutineDef('show', ['p', 'q'], [R.Print(R.Var('p'), ln=True), R.Print(R.Var('q'), ln=True)]))
            stmts.append(R.Call('show', [R.CallE('find', [arg()]), R.CallE('find', [arg()])]))
        else:
            stmts.append(R.Repeat('count', [R.Print(R.CallE('find', [arg()]), ln=True)], n=N(value=2)))
        stmts.append(R.Print(N(value=99), ln=True))
        return stmts
    return gen


# ---------------------------------------------------------------- C01: unit switches ---------
def unit_switch_program():
    """Actions before and after every unit switch, with non-zero time and duration in force."""
    def gen(ch):
        env = Env(ch)
        m1 = ch.pick(['logical', 'raw', 'rgb'])
        m2 = ch.pick([m for m in ('logical', 'raw', 'rgb') if m != m1])
        doms = {}

        def reg(name, dom):
            n = env.num('any')
            doms[n.sid] = dom
            return R.SetReg(name, n)
        cdom = {'logical': [('real', 1, 359), ('real', 1, 99), ('real', 1, 99)], 'raw': [('real', 100, 65000)] * 3, 'rgb': [('real', 1, 99)] * 3}[m1]
        names = ('red', 'green', 'blue') if m1 == 'rgb' else ('hue', 'saturation', 'brightness')
        tmax = 50000 if m1 == 'raw' else 50
        stmts = [R.Units(m1)] + [reg(n, d) for n, d in zip(names, cdom)] + [reg('kelvin', ('int', 1500, 9000)),
                                                                                 reg('time', ('real', tmax / 5000, tmax)), reg('duration', ('real', tmax / 5000, tmax))]
        act = ch.pick([lambda: R.Action('set', [R.Operand('light', R.Str('A'))]), lambda: R.Action('on', [R.Operand('group', R.Str('G1'))]),
                       lambda: R.Action('set', 'all'), lambda: R.Action('off', [R.Operand('light', R.Str('B')), R.Operand('location', R.Str('L1'))])])
        stmts += [act(), R.Units(m2), act()]
        if ch.flag():
            stmts += [R.Units(m1), act()]
        return (doms, stmts)
    return gen


# ---------------------------------------------------------------- get -------
def get_cases(Case):
    """`get` in each unit mode from a light in a given raw state: the registers (printed) and a following `set` of
    another light carry the colour read.  Raw and logical modes read a symbolic raw state; rgb (piecewise, nonlinear)
    reads concrete states chosen on and off the boundaries of the conversion."""
    out = []
    states = [(21845, 65535, 32768, 3500), (30000, 65535, 30000, 2700), (65535, 20000, 65535, 9000), (0, 0, 0, 1500), (100, 65535, 1000, 4000), (43690, 32768, 65535, 2500)]
    for mode in ('logical', 'raw', 'rgb'):
        regs = ('red', 'green', 'blue') if mode == 'rgb' else ('hue', 'saturation', 'brightness')
        body = ([R.Units(mode)] if mode != 'logical' else []) + [R.Get(R.Str('A'))] + [R.Print(R.Reg(r), ln=True) for r in regs + ('kelvin',)] \
            + [R.Action('set', [R.Operand('light', R.Str('B'))]), R.Action('set', [R.Operand('light', R.Str('Z'), zone=(N(value=1), None))])]
        if mode != 'rgb':
            init = {'A': [N(sid=1, kind='raw'), N(sid=2, kind='raw'), N(sid=3, kind='raw'), N(sid=4, kind='kelvin')]}
            out.append(Case(body, tag='get-%s-symbolic' % mode, init_colors=init))
        for i, st in enumerate(states):
            out.append(Case(body, tag='get-%s-%d' % (mode, i), init_colors={'A': [N(value=v) for v in st]}))
        # get, switch units, set: the colour read survives the switch
        other = 'raw' if mode != 'raw' else 'logical'
        out.append(Case(body[:-2] + [R.Units(other), R.Action('set', [R.Operand('light', R.Str('B'))])], tag='get-%s-then-%s' % (mode, other),
                        init_colors={'A': [N(value=v) for v in states[1]]}))
    return out



# ---------------------------------------------------------------- operators in commands -------
def expression_cases(Case):
    """Two-operator expressions (every ordered pair of arithmetic operators, both nestings, rendered with the fewest
    parentheses the documented precedence allows) whose value is printed, picks an if/else branch and is sent as a hue;
    plus mixes of comparison, logical and arithmetic operators in a condition."""
    out = []
    ops = ['+', '-', '*', '/', '%', '^']
    doms = {1: ('int', -6, 6), 2: ('int', 1, 4), 3: ('int', 1, 3), 4: ('int', -20, 20)}

    def body(e, cond=None):
        a_set = R.Action('set', [R.Operand('light', R.Str('A'))])
        b_on = R.Action('on', [R.Operand('light', R.Str('B'))])
        if cond is None:
            return [R.Assign('y', e), R.Print(R.Var('y'), ln=True), R.If(R.Bin('>', R.Var('y'), N(sid=4, kind='any')), [a_set], [b_on]),
                    R.SetReg('hue', e), R.Action('set', 'all')]
        return [R.If(cond, [a_set], [b_on]), R.Print(cond, ln=True)]
    for o1 in ops:
        for o2 in ops:
            a, b, c = N(sid=1, kind='any'), N(sid=2, kind='any'), N(sid=3, kind='any')
            if (o1, o2) == ('^', '/'):
                # a fractional power of a negative number is a complex number in Python: outside the documented arithmetic
                out.append(Case(body(R.Bin(o2, R.Bin(o1, a, b), c)), tag='expr-(%s)%s' % (o1, o2), doms=doms))
                continue
            out.append(Case(body(R.Bin(o1, a, R.Bin(o2, b, c))), tag='expr-%s(%s)' % (o1, o2), doms=doms))
            out.append(Case(body(R.Bin(o2, R.Bin(o1, a, b), c)), tag='expr-(%s)%s' % (o1, o2), doms=doms))
    a, b, c, d = (N(sid=i, kind='any') for i in (1, 2, 3, 4))
    conds = [
        R.Bin('and', R.Bin('>', R.Bin('+', a, b), c), R.Bin('<', d, R.Bin('*', b, c))),
        R.Bin('or', R.Bin('==', R.Bin('%', a, b), c), R.Bin('and', R.Bin('>', d, a), R.Bin('!=', b, c))),
        R.Bin('and', R.Bin('or', R.Bin('<', a, b), R.Bin('>=', d, c)), R.Bin('<=', R.Bin('-', d, c), a)),
        R.Bin('<', R.Bin('-', a, R.Bin('%', d, b)), R.Bin('+', c, R.Bin('*', a, b))),
        R.Bin('or', R.Bin('and', R.Bin('>', a, b), R.Bin('>', d, c)), R.Bin('==', R.Bin('/', d, b), c)),
    ]
    for i, cnd in enumerate(conds):
        out.append(Case(body(None, cnd), tag='cond-mix-%d' % i, doms=doms))
    return out
