"""Running checks: process pool, verdict bookkeeping, replay files, known findings,
evidence files, exit codes.

Exit codes: 0 = property held on everything explored (known findings are printed
as KNOWN-FINDING lines), 1 = at least one *replayed* violation not listed in
known_findings.json (VIOLATION line), 3 = harness error (a counterexample that
did not reproduce on the unmodified code, a vacuous harness, a crashed worker).
"""
import hashlib
import json
import multiprocessing as mp
import os
import re
import sys
import time
import traceback
from fractions import Fraction

from . import symx

VERIF = os.path.dirname(os.path.dirname(os.path.abspath(__file__)))
EXIT_OK, EXIT_VIOLATION, EXIT_HARNESS = 0, 1, 3


def jsonable(x):
    if isinstance(x, Fraction):
        return float(x) if x.denominator != 1 else int(x)
    if isinstance(x, (str, int, float, bool)) or x is None:
        return x
    if isinstance(x, dict):
        return {str(k): jsonable(v) for k, v in x.items()}
    if isinstance(x, (list, tuple, set, frozenset)):
        return [jsonable(v) for v in x]
    return repr(x)


class WorkResult:
    """What one work item (one harness instance / shape) reports back."""

    def __init__(self, label):
        self.label = label
        self.stats = symx.Stats()
        self.violations = []      # dicts with sig, message, inputs, replayed(bool)
        self.inconclusive = []    # short strings
        self.samples = []         # a few explored cases, written out
        self.reached = set()      # assertion sites reached with satisfiable pc
        self.sites = set()        # assertion sites declared
        self.exhaustive = True
        self.out_of_bound = 0
        self.nontrivial = 0       # distinct non-trivial cases (paths with >=1 solver-decided branch or query)
        self.functions = []
        self.error = None
        self.extra = {}

    def violation(self, sig, message, inputs=None, replayed=False, extra=None):
        v = {'sig': sig, 'message': message, 'inputs': jsonable(inputs or {}),
             'replayed': bool(replayed), 'item': self.label}
        if extra:
            v.update(jsonable(extra))
        self.violations.append(v)

    def sample(self, s, limit=3):
        if len(self.samples) < limit:
            self.samples.append(jsonable(s))


def _run_item(args):
    fn, item, idx = args
    t = time.time()
    try:
        r = fn(item)
    except BaseException as ex:           # noqa -- includes symx.Abort leaking out
        r = WorkResult(repr(item)[:200])
        r.error = '%s: %s\n%s' % (type(ex).__name__, ex, traceback.format_exc()[-1500:])
    r.extra['wall_s'] = round(time.time() - t, 3)
    return r


def _worker_loop(fn, conn):
    import signal
    signal.signal(signal.SIGINT, signal.SIG_IGN)
    while True:
        try:
            msg = conn.recv()
        except EOFError:
            return
        if msg is None:
            return
        idx, item = msg
        r = _run_item((fn, item, idx))
        try:
            conn.send((idx, r))
        except Exception as ex:      # unpicklable result
            rr = WorkResult(str(idx))
            rr.error = 'result not transferable: %s' % ex
            conn.send((idx, rr))


TIER = [None]          # set by checks.common.tier_budget(): the tier of the run in progress


def family(it):
    """The family a work item belongs to: its kind and the stem of its tag (core-s2-17 -> core, loops-5[pop] -> loops)."""
    import re
    if not isinstance(it, dict):
        return ''
    c = it.get('case')
    tag = getattr(c, 'tag', None) or it.get('tag') or it.get('label') or it.get('scenario') or it.get('script') or ''
    stem = re.sub(r'[-\[( ].*$', '', str(tag))
    flags = ''.join(k for k in ('loop', 'timeat', 'tail', 'before', 'after', 'runs', 'api', 'max_age', 'what') if it.get(k))
    if stem or it.get('kind') or flags:
        return '%s|%s|%s' % (it.get('kind', ''), stem, flags if 'tail' not in flags else 'tail:%s' % it.get('tail'))
    return '|'.join(sorted(k for k in it if k not in ('timeout_ms', 'max_paths', 'budget_s')))


def interleave(items):
    """Thorough tiers have more work than budget: instead of cutting whole families of items off the end of the list,
    take the first item of every family, then the second of every family, and so on -- small directed families are
    finished early, the large sampled ones are cut at their tails."""
    fams = {}
    for it in items:
        fams.setdefault(family(it), []).append(it)
    out = []
    depth = 0
    lists = list(fams.values())
    while len(out) < len(items):
        for l in lists:
            if depth < len(l):
                out.append(l[depth])
        depth += 1
    return out


def run_pool(fn, items, procs=None, budget_s=None, hard_item_s=None):
    """Runs fn(item)->WorkResult over items in forked worker processes.  Stops
    handing out new items after budget_s.  A worker that dies or exceeds
    hard_item_s is replaced and its item reported as a worker error (never a
    silent loss).  Returns (results, n_skipped)."""
    from multiprocessing.connection import wait
    if TIER[0] == 'thorough':
        items = interleave(items)
    procs = procs or min(16, os.cpu_count() or 4)
    if os.environ.get('VERIF_PROCS'):
        procs = int(os.environ['VERIF_PROCS'])
    hard_item_s = hard_item_s or max(240, (budget_s or 0) * 2)
    t0 = time.time()
    if procs <= 1 or len(items) <= 1:
        results, skipped = [], 0
        for i, it in enumerate(items):
            if budget_s and time.time() - t0 > budget_s:
                skipped += 1
                continue
            results.append(_run_item((fn, it, i)))
        return results, skipped
    ctx = mp.get_context('fork')
    procs = min(procs, len(items))
    workers = {}            # conn -> [process, current idx or None, started]

    def spawn():
        parent, child = ctx.Pipe()
        p = ctx.Process(target=_worker_loop, args=(fn, child), daemon=True)
        p.start()
        child.close()
        workers[parent] = [p, None, 0.0]
        return parent

    def label(i):
        it = items[i]
        c = it.get('case') if isinstance(it, dict) else None
        return getattr(c, 'tag', None) or repr(it)[:120]
    for _ in range(procs):
        spawn()
    results = []
    nxt = 0
    skipped = 0
    n = len(items)
    stop_handing = False
    while True:
        for conn, w in list(workers.items()):
            if w[1] is None and not stop_handing and nxt < n:
                if budget_s and time.time() - t0 > budget_s:
                    stop_handing = True
                    skipped = n - nxt
                    break
                try:
                    conn.send((nxt, items[nxt]))
                    w[1], w[2] = nxt, time.time()
                    nxt += 1
                except (BrokenPipeError, OSError):
                    workers.pop(conn)
                    spawn()
        busy = [c for c, w in workers.items() if w[1] is not None]
        if not busy:
            if nxt >= n or stop_handing:
                break
            continue
        ready = wait(busy, timeout=2.0)
        for conn in ready:
            w = workers[conn]
            try:
                idx, r = conn.recv()
                results.append(r)
                w[1] = None
            except (EOFError, OSError):
                r = WorkResult(label(w[1]))
                r.error = 'worker process died while running this item (exit code %s)' % w[0].exitcode
                results.append(r)
                workers.pop(conn)
                spawn()
        now = time.time()
        for conn, w in list(workers.items()):
            if w[1] is not None and now - w[2] > hard_item_s:
                r = WorkResult(label(w[1]))
                r.error = 'worker exceeded the hard limit of %ds on this item and was killed' % hard_item_s
                results.append(r)
                w[0].kill()
                workers.pop(conn)
                spawn()
    for conn, w in workers.items():
        try:
            conn.send(None)
        except Exception:
            pass
    for conn, w in workers.items():
        w[0].join(timeout=2)
        if w[0].is_alive():
            w[0].kill()
    return results, skipped


def load_known():
    p = os.path.join(VERIF, 'known_findings.json')
    if not os.path.exists(p):
        return []
    with open(p) as f:
        return json.load(f).get('findings', [])


def finish(prop, tier, seed, level, results, skipped, rule, assumptions, bounds,
           t0, technique, extra_cov=None, vacuity_sites=None):
    """Aggregate, write evidence, print verdict lines, return exit code."""
    stats = symx.Stats()
    viols, incon, samples, funcs, errors = [], [], [], set(), []
    reached, sites = set(), set(vacuity_sites or ())
    exhaustive = skipped == 0
    oob = 0
    nontrivial = 0
    slow = []
    for r in results:
        stats.merge(r.stats)
        viols.extend(r.violations)
        incon.extend(r.inconclusive)
        for s in r.samples:
            if len(samples) < 8:
                samples.append(s)
        funcs.update(r.functions)
        reached |= r.reached
        sites |= r.sites
        exhaustive = exhaustive and r.exhaustive
        oob += r.out_of_bound
        nontrivial += r.nontrivial
        if r.error:
            errors.append((r.label, r.error))
        slow.append((r.extra.get('wall_s', 0), r.label))

    known = [k for k in load_known() if k.get('property') == prop and k.get('status') == 'known']
    reported, known_hits, unreproduced = [], {}, []
    seen_sigs = set()
    for v in viols:
        if not v['replayed']:
            unreproduced.append(v)
            continue
        hit = None
        for k in known:
            if re.search(k['match'], v['sig']):
                hit = k
                break
        if hit is not None:
            known_hits.setdefault(hit['id'], (hit, []))[1].append(v)
            continue
        key = v['sig'].split('|', 1)[-1]
        if key in seen_sigs:
            continue
        seen_sigs.add(key)
        reported.append(v)

    OUT = os.environ.get('VERIF_OUT', VERIF)      # mutation testing writes its evidence/replays elsewhere
    os.makedirs(os.path.join(OUT, 'replays'), exist_ok=True)
    for hid, (k, vs) in sorted(known_hits.items()):
        print('KNOWN-FINDING: property=%s %s (%d occurrence(s) this run)' % (prop, k['what'], len(vs)))
    for v in reported[:20]:
        h = hashlib.sha1(json.dumps(v, sort_keys=True).encode()).hexdigest()[:10]
        path = os.path.join(OUT, 'replays', '%s-%s.json' % (prop, h))
        with open(path, 'w') as f:
            json.dump({'property': prop, 'violation': v}, f, indent=1)
        print('VIOLATION property=%s replay=%s' % (prop, path))
        print('  ' + v['message'][:600].replace('\n', '\n  '))
    vacuous = sorted(sites - reached)
    code = EXIT_OK
    if reported:
        code = EXIT_VIOLATION
    elif unreproduced or errors or vacuous:
        code = EXIT_HARNESS
    for v in unreproduced[:5]:
        print('HARNESS-ERROR property=%s counterexample did not reproduce: %s' % (prop, v['message'][:300]))
    for lab, e in errors[:5]:
        print('HARNESS-ERROR property=%s worker failed on %s: %s' % (prop, lab[:120], e[-700:]))
    if vacuous:
        print('HARNESS-ERROR property=%s assertion sites never reached: %s' % (prop, vacuous))

    wall = time.time() - t0
    cov = {
        'evaluations': int(stats.paths),
        'distinct_nontrivial': int(nontrivial),
        'rule': rule,
        'samples': samples or ['(no sample recorded)'],
        'exhaustive': bool(exhaustive and oob == 0),
        'work_items': len(results),
        'work_items_skipped_by_budget': skipped,
        'paths_explored': stats.paths,
        'paths_out_of_bound': oob,
        'solver': {'queries': stats.queries, 'sat': stats.q_sat, 'unsat': stats.q_unsat,
                   'unknown': stats.q_unknown, 'solver_time_s': round(stats.solver_s, 2),
                   'assertions_proved_unsat': stats.proved,
                   'assertions_refuted_sat': stats.refuted,
                   'assertions_inconclusive': stats.inconclusive,
                   'branch_decisions': stats.decisions, 'max_decision_depth': stats.max_depth},
        'inconclusive': incon[:20],
        'inconclusive_count': len(incon),
        'bounds': bounds,
        'technique': technique,
        'functions_encoded': sorted(funcs),
        'assertion_sites': sorted(sites),
        'assertion_sites_reached': sorted(reached),
        'known_findings_hit': sorted(known_hits),
        'violations_reported': [v['sig'] for v in reported],
        'unreproduced_counterexamples': len(unreproduced),
        'worker_errors': len(errors),
        'slowest_items': [[w, l] for w, l in sorted(slow, reverse=True)[:5]],
    }
    if extra_cov:
        cov.update(jsonable(extra_cov))
    ev = {
        'property_id': prop, 'tier': tier, 'seed': int(seed), 'level': level,
        'coverage': cov, 'assumptions': assumptions, 'wall_s': round(wall, 2),
        'violations': len(reported),
    }
    os.makedirs(os.path.join(OUT, 'evidence'), exist_ok=True)
    with open(os.path.join(OUT, 'evidence', prop + '.json'), 'w') as f:
        json.dump(ev, f, indent=1)
    print('%s %s: %d items, %d paths (%d out of bound), %d queries (%d unknown), '
          'proved %d refuted %d inconclusive %d, known %d, %.1fs -> exit %d'
          % (prop, tier, len(results), stats.paths, oob, stats.queries, stats.q_unknown,
             stats.proved, stats.refuted, stats.inconclusive, len(known_hits), wall, code))
    return code
