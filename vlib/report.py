"""Running checks: process pool, verdict bookkeeping, replay files, known findings,
evidence files, exit codes.

Exit codes: 0 = property held on everything explored (known findings are printed
as KNOWN-FINDING lines), 1 = at least one *replayed* violation not listed in
known_findings.json (VIOLATION line), 3 = harness error (a counterexample that
did not reproduce on the unmodified code, a vacuous harness, a crashed worker).
"""
import hashlib
import json
import multiprocessing as mp
import os
import re
import sys
import time
import traceback
from fractions import Fraction

from . import symx

VERIF = os.path.dirname(os.path.dirname(os.path.abspath(__file__)))
EXIT_OK, EXIT_VIOLATION, EXIT_HARNESS = 0, 1, 3


def jsonable(x):
    if isinstance(x, Fraction):
        return float(x) if x.denominator != 1 else int(x)
    if isinstance(x, (str, int, float, bool)) or x is None:
        return x
    if isinstance(x, dict):
        return {str(k): jsonable(v) for k, v in x.items()}
    if isinstance(x, (list, tuple, set, frozenset)):
        return [jsonable(v) for v in x]
    return repr(x)


class WorkResult:
    """What one work item (one harness instance / shape) reports back."""

    def __init__(self, label):
        self.label = label
        self.stats = symx.Stats()
        self.violations = []      # dicts with sig, message, inputs, replayed(bool)
        self.inconclusive = []    # short strings
        self.samples = []         # a few explored cases, written out
        self.reached = set()      # assertion sites reached with satisfiable pc
        self.sites = set()        # assertion sites declared
        self.exhaustive = True
        self.out_of_bound = 0
        self.nontrivial = 0       # distinct non-trivial cases (paths with >=1 solver-decided branch or query)
        self.functions = []
        self.error = None
        self.extra = {}

    def violation(self, sig, message, inputs=None, replayed=False, extra=None):
        v = {'sig': sig, 'message': message, 'inputs': jsonable(inputs or {}),
             'replayed': bool(replayed), 'item': self.label}
        if extra:
            v.update(jsonable(extra))
        self.violations.append(v)

    def sample(self, s, limit=3):
        if len(self.samples) < limit:
            self.samples.append(jsonable(s))


def _run_item(args):
    fn, item, idx = args
    t = time.time()
    try:
        r = fn(item)
    except BaseException as ex:           # noqa -- includes symx.Abort leaking out
        r = WorkResult(repr(item)[:200])
        r.error = '%s: %s\n%s' % (type(ex).__name__, ex, traceback.format_exc()[-1500:])
    r.extra['wall_s'] = round(time.time() - t, 3)
    return r


def run_pool(fn, items, procs=None, budget_s=None):
    """Runs fn(item)->WorkResult over items in a fork pool.  Stops handing out
    new items after budget_s; returns (results, n_skipped)."""
    procs = procs or min(16, os.cpu_count() or 4)
    if os.environ.get('VERIF_PROCS'):
        procs = int(os.environ['VERIF_PROCS'])
    results = []
    t0 = time.time()
    skipped = 0
    if procs <= 1 or len(items) <= 1:
        for i, it in enumerate(items):
            if budget_s and time.time() - t0 > budget_s:
                skipped += 1
                continue
            results.append(_run_item((fn, it, i)))
        return results, skipped
    ctx = mp.get_context('fork')
    with ctx.Pool(procs, maxtasksperchild=200) as pool:
        pending = []
        it = iter(enumerate(items))
        done_iter = False
        # simple windowed submission so that the budget can stop the hand-out
        import collections
        window = collections.deque()
        while True:
            while not done_iter and len(window) < procs * 3:
                if budget_s and time.time() - t0 > budget_s:
                    rest = sum(1 for _ in it)
                    skipped += rest
                    done_iter = True
                    break
                try:
                    i, item = next(it)
                except StopIteration:
                    done_iter = True
                    break
                window.append(pool.apply_async(_run_item, ((fn, item, i),)))
            if not window:
                break
            results.append(window.popleft().get())
    return results, skipped


def load_known():
    p = os.path.join(VERIF, 'known_findings.json')
    if not os.path.exists(p):
        return []
    with open(p) as f:
        return json.load(f).get('findings', [])


def finish(prop, tier, seed, level, results, skipped, rule, assumptions, bounds,
           t0, technique, extra_cov=None, vacuity_sites=None):
    """Aggregate, write evidence, print verdict lines, return exit code."""
    stats = symx.Stats()
    viols, incon, samples, funcs, errors = [], [], [], set(), []
    reached, sites = set(), set(vacuity_sites or ())
    exhaustive = skipped == 0
    oob = 0
    nontrivial = 0
    for r in results:
        stats.merge(r.stats)
        viols.extend(r.violations)
        incon.extend(r.inconclusive)
        for s in r.samples:
            if len(samples) < 8:
                samples.append(s)
        funcs.update(r.functions)
        reached |= r.reached
        sites |= r.sites
        exhaustive = exhaustive and r.exhaustive
        oob += r.out_of_bound
        nontrivial += r.nontrivial
        if r.error:
            errors.append((r.label, r.error))

    known = [k for k in load_known() if k.get('property') == prop and k.get('status') == 'known']
    reported, known_hits, unreproduced = [], {}, []
    seen_sigs = set()
    for v in viols:
        if not v['replayed']:
            unreproduced.append(v)
            continue
        hit = None
        for k in known:
            if re.search(k['match'], v['sig']):
                hit = k
                break
        if hit is not None:
            known_hits.setdefault(hit['id'], (hit, []))[1].append(v)
            continue
        key = v['sig'].split('|', 1)[-1]
        if key in seen_sigs:
            continue
        seen_sigs.add(key)
        reported.append(v)

    os.makedirs(os.path.join(VERIF, 'replays'), exist_ok=True)
    for hid, (k, vs) in sorted(known_hits.items()):
        print('KNOWN-FINDING: property=%s %s (%d occurrence(s) this run)' % (prop, k['what'], len(vs)))
    for v in reported[:20]:
        h = hashlib.sha1(json.dumps(v, sort_keys=True).encode()).hexdigest()[:10]
        path = os.path.join(VERIF, 'replays', '%s-%s.json' % (prop, h))
        with open(path, 'w') as f:
            json.dump({'property': prop, 'violation': v}, f, indent=1)
        print('VIOLATION property=%s replay=%s' % (prop, path))
        print('  ' + v['message'][:600].replace('\n', '\n  '))
    vacuous = sorted(sites - reached)
    code = EXIT_OK
    if reported:
        code = EXIT_VIOLATION
    elif unreproduced or errors or vacuous:
        code = EXIT_HARNESS
    for v in unreproduced[:5]:
        print('HARNESS-ERROR property=%s counterexample did not reproduce: %s' % (prop, v['message'][:300]))
    for lab, e in errors[:5]:
        print('HARNESS-ERROR property=%s worker failed on %s: %s' % (prop, lab[:120], e[-700:]))
    if vacuous:
        print('HARNESS-ERROR property=%s assertion sites never reached: %s' % (prop, vacuous))

    wall = time.time() - t0
    cov = {
        'evaluations': int(stats.paths),
        'distinct_nontrivial': int(nontrivial),
        'rule': rule,
        'samples': samples or ['(no sample recorded)'],
        'exhaustive': bool(exhaustive and oob == 0),
        'work_items': len(results),
        'work_items_skipped_by_budget': skipped,
        'paths_explored': stats.paths,
        'paths_out_of_bound': oob,
        'solver': {'queries': stats.queries, 'sat': stats.q_sat, 'unsat': stats.q_unsat,
                   'unknown': stats.q_unknown, 'solver_time_s': round(stats.solver_s, 2),
                   'assertions_proved_unsat': stats.proved,
                   'assertions_refuted_sat': stats.refuted,
                   'assertions_inconclusive': stats.inconclusive,
                   'branch_decisions': stats.decisions, 'max_decision_depth': stats.max_depth},
        'inconclusive': incon[:20],
        'inconclusive_count': len(incon),
        'bounds': bounds,
        'technique': technique,
        'functions_encoded': sorted(funcs),
        'assertion_sites': sorted(sites),
        'assertion_sites_reached': sorted(reached),
        'known_findings_hit': sorted(known_hits),
        'violations_reported': [v['sig'] for v in reported],
        'unreproduced_counterexamples': len(unreproduced),
        'worker_errors': len(errors),
    }
    if extra_cov:
        cov.update(jsonable(extra_cov))
    ev = {
        'property_id': prop, 'tier': tier, 'seed': int(seed), 'level': level,
        'coverage': cov, 'assumptions': assumptions, 'wall_s': round(wall, 2),
        'violations': len(reported),
    }
    os.makedirs(os.path.join(VERIF, 'evidence'), exist_ok=True)
    with open(os.path.join(VERIF, 'evidence', prop + '.json'), 'w') as f:
        json.dump(ev, f, indent=1)
    print('%s %s: %d items, %d paths (%d out of bound), %d queries (%d unknown), '
          'proved %d refuted %d inconclusive %d, known %d, %.1fs -> exit %d'
          % (prop, tier, len(results), stats.paths, oob, stats.queries, stats.q_unknown,
             stats.proved, stats.refuted, stats.inconclusive, len(known_hits), wall, code))
    return code
