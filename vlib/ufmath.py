"""ufmath -- the transcendental functions as uninterpreted z3 functions.

Inside bardolph.runtime.bardolph_math the name `math` is rebound to an instance of
UFMath during symbolic runs.  On a proxy, sqrt/sin/cos/tan/asin/acos/atan/radians/
degrees return the application of an uninterpreted function to the argument term; the
reference interpreter builds its expectation from the same functions ("sin of theta
*in degrees*" is SIN(RADIANS(theta))).  Equality of the two terms under every
interpretation of the functions means: the right function, applied to the right
argument, with the unit conversion on the right side -- for every argument value.
On plain numbers everything delegates to the real `math` module.
"""
import math

import z3

from . import symx

_F = {}
NAMES = ('sqrt', 'sin', 'cos', 'tan', 'asin', 'acos', 'atan', 'radians', 'degrees')


def uf(name):
    if name not in _F:
        _F[name] = z3.Function('uf_' + name, z3.RealSort(), z3.RealSort())
    return _F[name]


def apply(name, x):
    if symx.is_sym(x):
        return symx.SymNum(uf(name)(symx.term(x)))
    return getattr(math, name)(x)


class UFMath:
    def __getattr__(self, n):
        return getattr(math, n)


for _n in NAMES:
    setattr(UFMath, _n, staticmethod(lambda x, _n=_n: apply(_n, x)))
