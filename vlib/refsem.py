"""refsem -- reference semantics of the script language, written from the
documentation (docs/language.rst) and the property statements, independent of
the compiler/VM.  It interprets a small program AST directly and produces the
trace of events a correct implementation must cause at the simulated devices.

The same AST is rendered to script text for the real compiler.  The interpreter
is generic in its number type, so it runs on symx proxies inside the same
symbolic path as the VM (its branch decisions are then normally implied by the
path condition) and on plain Python numbers when a counterexample is replayed.

Numeric fields that the implementation must round are wrapped in `Approx`:
the transmitted value must be an integer within 1/2 of the (clamped) exact
value -- "correct to the nearest integer", not a particular tie-breaking rule.
"""
from fractions import Fraction

from . import symx

SENT_BASE = 9000000


# ------------------------------------------------------------------ AST -----
class Node:
    def __repr__(self):
        return '%s(%s)' % (type(self).__name__, ', '.join('%s=%r' % kv for kv in self.__dict__.items()))


class Num(Node):
    """Numeric literal.  sid is not None -> symbolic (rendered as a sentinel)."""
    def __init__(self, value=None, sid=None, kind='val'):
        self.value, self.sid, self.kind = value, sid, kind


class Str(Node):
    def __init__(self, s): self.s = s


class Var(Node):
    def __init__(self, name): self.name = name


class Reg(Node):
    def __init__(self, name): self.name = name


class Bin(Node):
    def __init__(self, op, l, r): self.op, self.l, self.r = op, l, r


class Neg(Node):
    def __init__(self, e): self.e = e


class Paren(Node):
    def __init__(self, e): self.e = e


class CallE(Node):
    def __init__(self, name, args, bracket=True): self.name, self.args, self.bracket = name, args, bracket


# statements
class SetReg(Node):
    def __init__(self, reg, e): self.reg, self.e = reg, e


class Units(Node):
    def __init__(self, mode): self.mode = mode


class Operand(Node):
    """kind: light|group|location ; name: Str|Var ; zone: None|(e1, e2|None)
    matrix: None | ('inline', rows, cols) | ('block', [stmts])"""
    def __init__(self, kind, name, zone=None, matrix=None):
        self.kind, self.name, self.zone, self.matrix = kind, name, zone, matrix


class Action(Node):
    """what: set|on|off ; operands: 'all' | 'default' | [Operand]"""
    def __init__(self, what, operands): self.what, self.operands = what, operands


class Stage(Node):
    def __init__(self, rows=None, cols=None, order='rc'): self.rows, self.cols, self.order = rows, cols, order


class Get(Node):
    def __init__(self, name): self.name = name


class Wait(Node):
    pass


class TimeAt(Node):
    def __init__(self, patterns): self.patterns = patterns   # list of str


class Assign(Node):
    def __init__(self, name, e): self.name, self.e = name, e


class Define(Node):
    def __init__(self, name, e): self.name, self.e = name, e


class If(Node):
    def __init__(self, cond, then, els=None): self.cond, self.then, self.els = cond, then, els


class Repeat(Node):
    """kind: count|while|forever|with|count_with|count_cycle|all|groups|locations|in
    fields used per kind: n, cond, var, a, b, start, lvar, items ([Operand-like
    ('light', Str|Var) | ('group', e) | ('location', e)]) and 'dist': None |
    ('from', a, b) | ('cycle', s|None) for light iterations."""
    def __init__(self, kind, body, **kw):
        self.kind, self.body = kind, body
        self.n = kw.get('n'); self.cond = kw.get('cond'); self.var = kw.get('var')
        self.a = kw.get('a'); self.b = kw.get('b'); self.start = kw.get('start')
        self.lvar = kw.get('lvar'); self.items = kw.get('items'); self.dist = kw.get('dist')


class Break(Node):
    pass


class RoutineDef(Node):
    def __init__(self, name, params, body): self.name, self.params, self.body = name, params, body


class Call(Node):
    def __init__(self, name, args, bracket=False): self.name, self.args, self.bracket = name, args, bracket


class Return(Node):
    def __init__(self, e=None): self.e = e


class Print(Node):
    def __init__(self, e=None, ln=False): self.e, self.ln = e, ln


class Printf(Node):
    def __init__(self, fmt, args): self.fmt, self.args = fmt, args


# --------------------------------------------------------------- render -----
def sent_text(sid):
    return str(SENT_BASE + sid)


def _num_text(v):
    if isinstance(v, Fraction):
        v = float(v)
    if isinstance(v, float):
        t = repr(v)
        if 'e' in t or 'E' in t:
            t = '%.12f' % v
        return t
    return str(v)


def rx(e, top=True):
    """Render an expression.  top=True -> a value position (braces added when needed)."""
    if isinstance(e, Num):
        if e.sid is not None:
            return sent_text(e.sid)
        if e.value < 0:
            return ('-' + _num_text(-e.value)) if top else ('-' + _num_text(-e.value))
        return _num_text(e.value)
    if isinstance(e, Str):
        return '"%s"' % e.s.replace('"', '\\"')
    if isinstance(e, (Var, Reg)):
        return e.name
    if isinstance(e, CallE):
        return '[' + ' '.join([e.name] + [rx(a) for a in e.args]) + ']'
    inner = _rx_inner(e)
    return '{' + inner + '}' if top else inner


_PREC = {'or': 1, 'and': 2, '<': 3, '<=': 3, '>': 3, '>=': 3, '==': 3, '!=': 3, '+': 4, '-': 4,
         '*': 5, '/': 5, '%': 5, '^': 6}


def _rx_inner(e, parent=0, right=False):
    """Render inside braces; a child operator is parenthesised when the documented
    precedence/associativity would otherwise regroup it (the AST is the meaning)."""
    if isinstance(e, Bin):
        p = _PREC[e.op]
        rassoc = e.op == '^'
        t = '%s %s %s' % (_rx_inner(e.l, p, rassoc), e.op, _rx_inner(e.r, p, not rassoc))
        if p < parent or (p == parent and right):
            return '(' + t + ')'
        return t
    if isinstance(e, Neg):
        inner = _rx_inner(e.e, 7)
        return '-' + inner
    if isinstance(e, Paren):
        return '(' + _rx_inner(e.e) + ')'
    if isinstance(e, Num) and e.sid is None and e.value < 0 and parent > 0:
        return '(' + rx(e, top=False) + ')'
    return rx(e, top=False)


def _rop(o):
    pre = {'light': '', 'group': 'group ', 'location': 'location '}[o.kind]
    t = pre + rx(o.name)
    if o.zone is not None:
        t += ' zone ' + rx(o.zone[0])
        if o.zone[1] is not None:
            t += ' ' + rx(o.zone[1])
    if o.matrix is not None:
        if o.matrix[0] == 'inline':
            t += _rrect(o.matrix[1], o.matrix[2], o.matrix[3] if len(o.matrix) > 3 else 'rc')
        else:
            t += ' begin\n' + render(o.matrix[1], 1) + 'end'
    return t


def _rrect(rows, cols, order='rc'):
    parts = []
    r = c = ''
    if rows is not None:
        r = ' row ' + rx(rows[0]) + ('' if rows[1] is None else ' ' + rx(rows[1]))
    if cols is not None:
        c = ' column ' + rx(cols[0]) + ('' if cols[1] is None else ' ' + rx(cols[1]))
    return r + c if order == 'rc' else c + r


def _rbody(body, ind):
    if len(body) == 1 and not isinstance(body[0], (If,)):
        # single command still rendered with begin/end: unambiguous
        pass
    return 'begin\n' + render(body, ind + 1) + '  ' * ind + 'end'


def render(stmts, ind=0):
    out = []
    pad = '  ' * ind
    prev = None
    for s in stmts:
        t = rs(s, ind)
        if isinstance(s, Call) and s.bracket and _open_ended(prev):
            # the language has no statement separator: `set "Z" zone 1` followed by `[f 2]` is the range 1..[f 2];
            # the statement meant here is written without the optional brackets
            t = t[1:-1]
        out.append(pad + t + '\n')
        prev = s
    return ''.join(out)


def _open_ended(s):
    """Does the statement end where one more value could follow (a range written with one bound, a bare return)?"""
    if isinstance(s, Return):
        return s.e is None
    if isinstance(s, Stage):
        return True
    if isinstance(s, Action) and isinstance(s.operands, list):
        return any(getattr(o, 'zone', None) or getattr(o, 'matrix', None) for o in s.operands)
    return False


def rs(s, ind=0):
    if isinstance(s, SetReg):
        return '%s %s' % (s.reg, rx(s.e))
    if isinstance(s, Units):
        return 'units ' + s.mode
    if isinstance(s, Action):
        if s.operands in ('all', 'default'):
            return '%s %s' % (s.what, s.operands)
        return s.what + ' ' + ' and '.join(_rop(o) for o in s.operands)
    if isinstance(s, Stage):
        return 'stage' + _rrect(s.rows, s.cols, s.order)
    if isinstance(s, Get):
        return 'get ' + rx(s.name)
    if isinstance(s, Wait):
        return 'wait'
    if isinstance(s, TimeAt):
        return 'time at ' + ' or '.join(s.patterns)
    if isinstance(s, Assign):
        return 'assign %s %s' % (s.name, rx(s.e))
    if isinstance(s, Define):
        return 'define %s %s' % (s.name, rx(s.e))
    if isinstance(s, If):
        t = 'if %s %s' % (rx(s.cond), _rbody(s.then, ind))
        if s.els is not None:
            if len(s.els) == 1 and isinstance(s.els[0], If):
                t += ' else ' + rs(s.els[0], ind)
            else:
                t += ' else ' + _rbody(s.els, ind)
        return t
    if isinstance(s, Repeat):
        return 'repeat ' + _rhead(s) + _rbody(s.body, ind)
    if isinstance(s, Break):
        return 'break'
    if isinstance(s, RoutineDef):
        t = 'define ' + s.name
        if s.params:
            t += ' with ' + ' '.join(s.params)
        return t + ' ' + _rbody(s.body, ind)
    if isinstance(s, Call):
        t = ' '.join([s.name] + [rx(a) for a in s.args])
        return '[' + t + ']' if s.bracket else t
    if isinstance(s, Return):
        return 'return' + ('' if s.e is None else ' ' + rx(s.e))
    if isinstance(s, Print):
        return ('println' if s.ln else 'print') + ('' if s.e is None else ' ' + rx(s.e))
    if isinstance(s, Printf):
        return 'printf "%s"' % s.fmt.replace('"', '\\"') + ''.join(' ' + rx(a) for a in s.args)
    raise TypeError(s)


def _rdist(d):
    if d is None:
        return ''
    if d[0] == 'from':
        return 'with %s from %s to %s ' % (d[1], rx(d[2]), rx(d[3]))
    return 'with %s cycle %s' % (d[1], '' if d[2] is None else rx(d[2]) + ' ')


def _ritems(items):
    parts = []
    for kind, e in items:
        parts.append({'light': '', 'group': 'group ', 'location': 'location '}[kind] + rx(e))
    return ' and '.join(parts)


def _rhead(s):
    k = s.kind
    if k == 'count':
        return rx(s.n) + ' '
    if k == 'while':
        return 'while ' + rx(s.cond) + ' '
    if k == 'forever':
        return ''
    if k == 'with':
        return 'with %s from %s to %s ' % (s.var, rx(s.a), rx(s.b))
    if k == 'count_with':
        return '%s with %s from %s to %s ' % (rx(s.n), s.var, rx(s.a), rx(s.b))
    if k == 'count_cycle':
        return '%s with %s cycle %s' % (rx(s.n), s.var, '' if s.start is None else rx(s.start) + ' ')
    if k == 'all':
        return 'all as %s ' % s.lvar + _rdist(s.dist)
    if k == 'groups':
        return 'group as %s ' % s.lvar + _rdist(s.dist)
    if k == 'locations':
        return 'location as %s ' % s.lvar + _rdist(s.dist)
    if k == 'in':
        return 'in %s as %s ' % (_ritems(s.items), s.lvar) + _rdist(s.dist)
    raise ValueError(k)


# ------------------------------------------------------------- semantics -----
class Approx:
    """Spec value of a field the implementation rounds: transmitted value must be
    an integer with |sent - value| <= 1/2 (value already clamped).
    circ: compare modulo `circ` (hue: 65535 and 0 are the same angle)."""
    def __init__(self, value, circ=None):
        self.value, self.circ = value, circ

    def __repr__(self):
        return 'Approx(%r)' % (self.value,)


class Painted(list):
    """A matrix cell coloured by a stage (as opposed to the default fill)."""


class _BreakEx(Exception):
    pass


class _ReturnEx(Exception):
    def __init__(self, v): self.v = v


class OutOfScope(Exception):
    """The reference semantics is undefined here (division by zero, ...)."""


class StepLimit(symx.Abort):
    pass


def clamp(x, lo, hi):
    if x < lo:
        return lo
    if x > hi:
        return hi
    return x


def fmod(a, m):
    """a mod m for m > 0 over proxies or numbers (floor-mod)."""
    return a % m


def rgb_to_hsv(r, g, b):
    """Textbook RGB->HSV on [0,1] values (independent of colorsys)."""
    mx = r
    if g > mx:
        mx = g
    if b > mx:
        mx = b
    mn = r
    if g < mn:
        mn = g
    if b < mn:
        mn = b
    v = mx
    if mx == mn:
        return 0, 0, v
    d = mx - mn
    s = d / mx
    if mx == r:
        h = (g - b) / d
        if h < 0:
            h = h + 6
    elif mx == g:
        h = 2 + (b - r) / d
    else:
        h = 4 + (r - g) / d
    return h / 6, s, v


def spec_raw_color(mode, color):
    """mode logical|raw|rgb, color = 4 numbers in that mode -> list of 4 Approx."""
    c0, c1, c2, k = color
    if mode == 'raw':
        h, s, b = c0, c1, c2
        # hue is an angle in raw units too: 65535 and 0 are the same angle (matters after a unit
        # switch of a hue within rounding distance of a full turn)
        return [Approx(clamp(h, 0, 65535), circ=65535), Approx(clamp(s, 0, 65535)),
                Approx(clamp(b, 0, 65535)), Approx(clamp(k, 0, 65535))]
    if mode == 'logical':
        h = fmod(c0, 360) / 360 * 65535
        s = c1 / 100 * 65535
        b = c2 / 100 * 65535
    else:
        for c in (c0, c1, c2):
            if c < 0 or c > 100:
                raise OutOfScope('rgb component outside 0..100')
        hh, ss, vv = rgb_to_hsv(c0 / 100, c1 / 100, c2 / 100)
        h, s, b = hh * 65535, ss * 65535, vv * 65535
    return [Approx(clamp(h, 0, 65535), circ=65535), Approx(clamp(s, 0, 65535)),
            Approx(clamp(b, 0, 65535)), Approx(clamp(k, 0, 65535))]


def spec_raw_time(mode, t):
    ms = t if mode == 'raw' else t * 1000
    return Approx(clamp(ms, 0, 0xffffffff))


def hsv_to_rgb(h, s, v):
    """Textbook HSV->RGB on [0,1] values."""
    if s == 0:
        return v, v, v
    h6 = h * 6
    i = __import__('math').floor(h6)
    if symx.is_sym(i):
        i = i.__index__()
    f = h6 - i
    p = v * (1 - s)
    q = v * (1 - s * f)
    t = v * (1 - s * (1 - f))
    i = i % 6
    return [(v, t, p), (q, v, p), (p, v, t), (p, q, v), (t, p, v), (v, p, q)][i]


def raw_to_mode(mode, raw):
    """What `get` must put into the registers for a raw device colour."""
    h, s, b, k = raw
    if mode == 'raw':
        return [h, s, b, k]
    if mode == 'logical':
        return [h / 65535 * 360, s / 65535 * 100, b / 65535 * 100, k]
    r, g, bl = hsv_to_rgb(h / 65535, s / 65535, b / 65535)
    return [r * 100, g * 100, bl * 100, k]


class World:
    """The light population as the reference semantics sees it."""
    def __init__(self, specs):
        self.kind = {}
        self.groups = {}
        self.locations = {}
        self.zones = {}
        self.size = {}
        for spec in specs:
            label, group, location, kind, *rest = spec
            self.kind[label] = kind
            self.groups.setdefault(group, []).append(label)
            self.locations.setdefault(location, []).append(label)
            if kind == 'multizone':
                self.zones[label] = rest[0]
            if kind == 'matrix':
                self.size[label] = (rest[1], rest[2])
        for d in (self.groups, self.locations):
            for k in d:
                d[k].sort()
        self.names = sorted(self.kind)
        self.color = {n: [0, 0, 0, 0] for n in self.names}


BUILTINS = ('round', 'trunc', 'floor', 'ceil', 'cycle', 'sqrt', 'sin', 'cos', 'tan', 'asin', 'acos', 'atan')


class Interp:
    def __init__(self, world, numval, max_steps=400):
        """numval(Num) -> the number a literal stands for (proxy or python)."""
        self.w = world
        self.numval = numval
        self.trace = []
        self.reg = dict(hue=0, saturation=0, brightness=0, kelvin=0, duration=0, time=0,
                        red=0, green=0, blue=0)
        self.mode = 'logical'
        self.power = False
        self.default = None
        self.globals = {}
        self.macros = {}
        self.frames = []          # list of dicts (params + locals), per active call
        self.params = []          # list of sets
        self.routines = {}
        self.steps = 0
        self.max_steps = max_steps
        self.matrix = None        # (light, h, w, cells) while inside a matrix block
        self.inline_tiles = set() # indices of tile events produced by the one-line row/column form

    def ev(self, *e):
        self.trace.append(e)

    def tick(self):
        self.steps += 1
        if self.steps > self.max_steps:
            raise StepLimit('refsem step limit')

    # ---- expressions -----------------------------------------------------
    def lookup(self, name):
        # a parameter or local of the routine being executed hides a constant of the same name
        if self.frames and name in self.frames[-1]:
            return self.frames[-1][name]
        if name in self.macros:
            return self.macros[name]
        if name in self.globals:
            return self.globals[name]
        raise OutOfScope('undefined variable ' + name)

    def store(self, name, v):
        if self.frames:
            fr = self.frames[-1]
            if name in self.params[-1]:
                fr[name] = v
            elif name in self.globals:
                self.globals[name] = v
            else:
                fr[name] = v
        else:
            self.globals[name] = v

    def ex(self, e):
        if isinstance(e, Num):
            return self.numval(e)
        if isinstance(e, Str):
            return e.s
        if isinstance(e, Var):
            return self.lookup(e.name)
        if isinstance(e, Reg):
            return self.reg[e.name]
        if isinstance(e, Paren):
            return self.ex(e.e)
        if isinstance(e, Neg):
            return -self.ex(e.e)
        if isinstance(e, CallE):
            return self.call(e.name, e.args)
        if isinstance(e, Bin):
            a = self.ex(e.l)
            b = self.ex(e.r)
            return self.binop(e.op, a, b)
        raise TypeError(e)

    def binop(self, op, a, b):
        if op == '+': return a + b
        if op == '-': return a - b
        if op == '*': return a * b
        if op == '/':
            if b == 0:
                raise OutOfScope('division by zero')
            return a / b
        if op == '%':
            if b == 0:
                raise OutOfScope('modulo by zero')
            return a % b
        if op == '^': return a ** b
        if op == '<': return a < b
        if op == '<=': return a <= b
        if op == '>': return a > b
        if op == '>=': return a >= b
        if op == '==': return a == b
        if op == '!=': return a != b
        if op == 'and':
            ta, tb = bool(a), bool(b)
            return ta and tb
        if op == 'or':
            ta, tb = bool(a), bool(b)
            return ta or tb
        raise ValueError(op)

    def call(self, name, args):
        self.tick()
        vals = [self.ex(a) for a in args]        # caller's scope, left to right
        if name in BUILTINS:
            return self.builtin(name, vals)
        r = self.routines[name]
        self.frames.append(dict(zip(r.params, vals)))
        self.params.append(set(r.params))
        try:
            self.block(r.body)
            ret = None
        except _ReturnEx as rv:
            ret = rv.v
        finally:
            self.frames.pop()
            self.params.pop()
        return ret

    def builtin(self, name, vals):
        import math
        x = vals[0]
        if name == 'round': return round(x)
        if name == 'trunc': return math.trunc(x)
        if name == 'floor': return math.floor(x)
        if name == 'ceil': return math.ceil(x)
        if name == 'cycle': return fmod(x, 360)
        # docs/language.rst: sqrt of a negative number is 0 (and an error in the log); sin/cos/tan take
        # degrees, asin/acos/atan deliver degrees
        from . import ufmath
        if name == 'sqrt':
            return 0 if x < 0 else ufmath.apply('sqrt', x)
        if name in ('sin', 'cos', 'tan'):
            return ufmath.apply(name, ufmath.apply('radians', x))
        if name in ('asin', 'acos', 'atan'):
            return ufmath.apply('degrees', ufmath.apply(name, x))
        raise ValueError(name)

    # ---- statements ------------------------------------------------------
    def run(self, stmts):
        # routine definitions are compile-time: visible from the definition on, and
        # never executed in line.
        try:
            self.block(stmts)
        except _ReturnEx:
            raise OutOfScope('return outside routine')
        return self.trace

    def block(self, stmts):
        for s in stmts:
            self.stmt(s)

    def cur_color(self):
        if self.mode == 'rgb':
            return [self.reg['red'], self.reg['green'], self.reg['blue'], self.reg['kelvin']]
        return [self.reg['hue'], self.reg['saturation'], self.reg['brightness'], self.reg['kelvin']]

    def do_wait(self):
        t = self.reg['time']
        if isinstance(t, str):
            self.ev('wait_until', t)
        elif t > 0:
            self.ev('pause', t / 1000 if self.mode == 'raw' else t)

    def name_of(self, e):
        v = self.ex(e)
        return v

    def stmt(self, s):
        self.tick()
        if isinstance(s, SetReg):
            self.reg[s.reg] = self.ex(s.e)
        elif isinstance(s, Units):
            self.switch_units(s.mode)
        elif isinstance(s, Action):
            self.action(s)
        elif isinstance(s, Stage):
            self.stage(s)
        elif isinstance(s, Get):
            self.get(self.name_of(s.name))
        elif isinstance(s, Wait):
            self.do_wait()
        elif isinstance(s, TimeAt):
            self.reg['time'] = ' or '.join(s.patterns)
        elif isinstance(s, Assign):
            self.store(s.name, self.ex(s.e))
        elif isinstance(s, Define):
            self.macros[s.name] = self.ex(s.e)
        elif isinstance(s, If):
            if self.ex(s.cond):
                self.block(s.then)
            elif s.els is not None:
                self.block(s.els)
        elif isinstance(s, Repeat):
            self.repeat(s)
        elif isinstance(s, Break):
            raise _BreakEx()
        elif isinstance(s, RoutineDef):
            self.routines[s.name] = s
        elif isinstance(s, Call):
            self.call(s.name, s.args)
        elif isinstance(s, Return):
            raise _ReturnEx(None if s.e is None else self.ex(s.e))
        elif isinstance(s, Print):
            if s.e is not None:
                self.ev('out', self.ex(s.e))
            if s.ln:
                self.ev('newline')
        elif isinstance(s, Printf):
            self.printf(s)
        else:
            raise TypeError(s)

    def printf(self, s):
        import string
        vals = [self.ex(a) for a in s.args]
        named = {}
        fmt = s.fmt.replace('\\n', '\n')
        for _, field, _, _ in string.Formatter().parse(fmt):
            if field and not field.isdecimal():
                base = field.split('.')[0].split('[')[0]
                named[base] = self.reg[base] if base in self.reg else self.lookup(base)
        self.ev('out', fmt.format(*vals, **named))

    # units ----------------------------------------------------------------
    def switch_units(self, to):
        frm = self.mode
        if frm == to:
            return
        # The colour the lights would get is preserved; refsem keeps registers
        # by converting through the exact formulas.
        if frm == 'logical' and to == 'raw':
            h, s, b = self.reg['hue'], self.reg['saturation'], self.reg['brightness']
            self.reg['hue'] = fmod(h, 360) / 360 * 65535
            self.reg['saturation'] = s / 100 * 65535
            self.reg['brightness'] = b / 100 * 65535
        elif frm == 'raw' and to == 'logical':
            for k, f in (('hue', 360), ('saturation', 100), ('brightness', 100)):
                self.reg[k] = self.reg[k] / 65535 * f
        elif to == 'rgb':
            h, s, b = self.reg['hue'], self.reg['saturation'], self.reg['brightness']
            if frm == 'raw':
                h, s, b = h / 65535, s / 65535, b / 65535
            else:
                h, s, b = h / 360, s / 100, b / 100
            r, g, bl = hsv_to_rgb(h, s, b)
            self.reg['red'], self.reg['green'], self.reg['blue'] = r * 100, g * 100, bl * 100
        elif frm == 'rgb':
            h, s, v = rgb_to_hsv(self.reg['red'] / 100, self.reg['green'] / 100, self.reg['blue'] / 100)
            if to == 'raw':
                self.reg['hue'], self.reg['saturation'], self.reg['brightness'] = h * 65535, s * 65535, v * 65535
            else:
                self.reg['hue'], self.reg['saturation'], self.reg['brightness'] = h * 360, s * 100, v * 100
        if to == 'raw':
            self.reg['time'] = self.reg['time'] * 1000
            self.reg['duration'] = self.reg['duration'] * 1000
        elif frm == 'raw':
            self.reg['time'] = self.reg['time'] / 1000
            self.reg['duration'] = self.reg['duration'] / 1000
        self.mode = to

    # actions --------------------------------------------------------------
    def action(self, s):
        in_matrix = self.matrix is not None
        if s.operands == 'default':
            if not in_matrix:
                self.do_wait()
            self.default = spec_raw_color(self.mode, self.cur_color())
            return
        if not in_matrix:
            self.do_wait()                      # one delay per action, shared by `and`
        dur = spec_raw_time(self.mode, self.reg['duration'])
        if s.operands == 'all':
            if s.what == 'set':
                self.ev('all_color', spec_raw_color(self.mode, self.cur_color()), dur)
                for n in self.w.names:
                    self.w.color[n] = self.cur_raw_exactish()
            else:
                self.ev('all_power', 65535 if s.what == 'on' else 0, dur)
            return
        for o in s.operands:
            name = self.ex(o.name)
            if o.kind == 'light':
                targets = [name] if name in self.w.kind else []
            elif o.kind == 'group':
                targets = list(self.w.groups.get(name, []))
            else:
                targets = list(self.w.locations.get(name, []))
            if o.zone is not None:
                if targets and self.w.kind[name] == 'multizone':
                    a = self.ex(o.zone[0])
                    b = a if o.zone[1] is None else self.ex(o.zone[1])
                    self.ev('zone', name, a, b + 1, spec_raw_color(self.mode, self.cur_color()), dur)
                continue
            if o.matrix is not None:
                self.matrix_set(name, o.matrix, dur)
                continue
            for t in targets:
                if s.what == 'set':
                    self.ev('color', t, spec_raw_color(self.mode, self.cur_color()), dur)
                    self.w.color[t] = self.cur_raw_exactish()
                else:
                    self.ev('power', t, 65535 if s.what == 'on' else 0, dur)

    def cur_raw_exactish(self):
        # device state after a set: the spec values (Approx); `get` after `set` in the
        # same script reads back what the device stored -- taken from the stub instead.
        return None

    def get(self, name):
        if name not in self.w.kind or self.w.kind[name] != 'plain':
            return
        self.ev('get_color', name)
        raw = self.device_color(name)
        vals = raw_to_mode(self.mode, raw)
        if self.mode == 'rgb':
            self.reg['red'], self.reg['green'], self.reg['blue'], self.reg['kelvin'] = vals
        else:
            self.reg['hue'], self.reg['saturation'], self.reg['brightness'], self.reg['kelvin'] = vals

    def device_color(self, name):
        """Hook: the raw colour the device reports (set by the harness)."""
        raise OutOfScope('device colour unknown')

    # matrix ---------------------------------------------------------------
    def matrix_set(self, name, spec, dur):
        known = name in self.w.kind
        is_matrix = known and self.w.kind[name] == 'matrix'
        h, w = self.w.size[name] if is_matrix else (None, None)
        cells = {}
        self.matrix = (name, h, w, cells, is_matrix)
        try:
            if spec[0] == 'inline':
                self.paint(spec[1], spec[2])
            else:
                self.block(spec[1])
        finally:
            self.matrix = None
        if not is_matrix:
            return
        default = self.default if self.default is not None else [0, 0, 0, 0]
        out = []
        for r in range(h):
            for c in range(w):
                out.append(cells.get((r, c), default))
        if spec[0] == 'inline':
            self.inline_tiles.add(len(self.trace))
        self.ev('tile', name, out, dur, w, h)

    def paint(self, rows, cols):
        name, h, w, cells, is_matrix = self.matrix
        if not is_matrix:
            # evaluate bounds for their side effects only
            for rng in (rows, cols):
                if rng is not None:
                    self.ex(rng[0])
                    if rng[1] is not None:
                        self.ex(rng[1])
            return
        if rows is None:
            r1, r2 = 0, h - 1
        else:
            r1 = self.ex(rows[0])
            r2 = r1 if rows[1] is None else self.ex(rows[1])
        if cols is None:
            c1, c2 = 0, w - 1
        else:
            c1 = self.ex(cols[0])
            c2 = c1 if cols[1] is None else self.ex(cols[1])
        color = Painted(spec_raw_color(self.mode, self.cur_color()))
        for r in range(h):
            for c in range(w):
                if r1 <= r and r <= r2 and c1 <= c and c <= c2:
                    cells[(r, c)] = color

    def stage(self, s):
        if self.matrix is None:
            raise OutOfScope('stage outside matrix block')
        if s.order == 'rc':
            self.paint(s.rows, s.cols)
        else:
            # evaluation order of the bounds follows the text
            self.paint(s.rows, s.cols)

    # loops ----------------------------------------------------------------
    def body(self, stmts):
        try:
            self.block(stmts)
            return True
        except _BreakEx:
            return False

    def lights_of(self, items):
        out = []
        for kind, e in items:
            v = self.ex(e)
            if kind == 'light':
                out.append(v)
            elif kind == 'group':
                out.extend(self.w.groups.get(v, []))
            else:
                out.extend(self.w.locations.get(v, []))
        return out

    def repeat(self, s):
        k = s.kind
        if k == 'count':
            n = self.ex(s.n)
            i = 0
            while i < n:
                self.tick()
                if not self.body(s.body):
                    break
                i += 1
        elif k == 'while':
            while self.ex(s.cond):
                self.tick()
                if not self.body(s.body):
                    break
        elif k == 'forever':
            while True:
                self.tick()
                if not self.body(s.body):
                    break
        elif k == 'with':
            a = self.ex(s.a)
            b = self.ex(s.b)
            step = 1 if b >= a else -1
            v = a
            while (v <= b) if step == 1 else (v >= b):
                self.tick()
                self.store(s.var, v)
                if not self.body(s.body):
                    break
                v = v + step
        elif k == 'count_with':
            n = self.ex(s.n)
            a = self.ex(s.a)
            b = self.ex(s.b)
            self.interp_loop(n, s.var, a, b, s.body, None, None)
        elif k == 'count_cycle':
            n = self.ex(s.n)
            start = 0 if s.start is None else self.ex(s.start)
            self.cycle_loop(n, s.var, start, s.body, None, None)
        elif k in ('all', 'groups', 'locations', 'in'):
            if k == 'all':
                names = list(self.w.names)
            elif k == 'groups':
                names = sorted(self.w.groups)
            elif k == 'locations':
                names = sorted(self.w.locations)
            else:
                names = self.lights_of(s.items)
            n = len(names)
            if s.dist is None:
                for nm in names:
                    self.tick()
                    self.store(s.lvar, nm)
                    if not self.body(s.body):
                        break
            elif s.dist[0] == 'from':
                a = self.ex(s.dist[2])
                b = self.ex(s.dist[3])
                self.interp_loop(n, s.dist[1], a, b, s.body, s.lvar, names)
            else:
                start = 0 if s.dist[2] is None else self.ex(s.dist[2])
                self.cycle_loop(n, s.dist[1], start, s.body, s.lvar, names)
        else:
            raise ValueError(k)

    def interp_loop(self, n, var, a, b, body, lvar, names):
        i = 0
        while i < n:
            self.tick()
            if n == 1:
                v = a
            else:
                v = a + i * (b - a) / (n - 1)
            self.store(var, v)
            if lvar is not None:
                self.store(lvar, names[i])
            if not self.body(body):
                break
            i += 1

    def cycle_loop(self, n, var, start, body, lvar, names):
        turn = 65536 if self.mode == 'raw' else 360
        i = 0
        while i < n:
            self.tick()
            self.store(var, start + i * turn / n)
            if lvar is not None:
                self.store(lvar, names[i])
            if not self.body(body):
                break
            i += 1


# ------------------------------------------------------- trace comparison ---
SLACK = [0]


def compare_traces(got, exp, slack=0):
    """Structural comparison.  Returns (mismatch_description | None, constraints)
    where constraints is a list of (description, z3 formula that must hold)."""
    import z3
    cons = []
    SLACK[0] = slack
    if len(got) != len(exp):
        return ('trace length %d != expected %d' % (len(got), len(exp)), cons)
    for i, (g, e) in enumerate(zip(got, exp)):
        if g[0] != e[0] or len(g) != len(e):
            return ('event %d: got %r expected %r' % (i, g[0], e[0]), cons)
        m = _cmp_field(g[1:], e[1:], 'ev%d:%s' % (i, g[0]), cons)
        if m:
            return (m, cons)
    return (None, cons)


def _cmp_field(g, e, where, cons):
    import z3
    if isinstance(e, Approx):
        if isinstance(g, (list, tuple, str)) or g is None:
            return '%s: got %r expected number' % (where, g)
        gt = symx.term(g)
        et = symx.term(e.value)
        d = gt - et
        half = symx.HALF + symx.term(SLACK[0]) if SLACK[0] else symx.HALF
        ok = z3.And(d <= half, -d <= half)
        if e.circ is not None:
            ok = z3.Or(ok, z3.And(gt - et >= e.circ - half, gt - et <= e.circ + half),
                       z3.And(et - gt >= e.circ - half, et - gt <= e.circ + half))
        margin = half + symx.term(Fraction(1, 50))
        robust = z3.Or(d > margin, -d > margin)
        if e.circ is not None:
            robust = z3.And(robust, z3.Or(d < e.circ - margin, d > e.circ + margin),
                            z3.Or(-d < e.circ - margin, -d > e.circ + margin))
        cons.append((where + ' nearest', ok, robust))
        if isinstance(g, symx.SymNum):
            if not g.is_int:
                cons.append((where + ' integer', z3.IsInt(g.e)))
        elif isinstance(g, float) and g != int(g) or isinstance(g, Fraction) and g.denominator != 1:
            cons.append((where + ' integer', z3.BoolVal(False)))
        return None
    if isinstance(e, (list, tuple)):
        if not isinstance(g, (list, tuple)) or len(g) != len(e):
            return '%s: shape got %r expected %r' % (where, g, e)
        for j, (gg, ee) in enumerate(zip(g, e)):
            m = _cmp_field(gg, ee, '%s[%d]' % (where, j), cons)
            if m:
                return m
        return None
    if symx.is_sym(g) or symx.is_sym(e):
        if isinstance(g, str) or isinstance(e, str) or g is None or e is None:
            return '%s: got %r expected %r' % (where, g, e)
        try:
            dd = symx.term(g) - symx.term(e)
            robust = z3.Or(dd > symx.term(Fraction(1, 1000)), -dd > symx.term(Fraction(1, 1000)))
        except TypeError:
            robust = None
        cons.append((where, symx.eq(g, e), robust))
        return None
    if isinstance(e, str) or isinstance(g, str) or e is None or g is None:
        if not (type(g) is type(e) and g == e):
            if hasattr(g, 'match') and isinstance(e, str):
                return None if _pattern_same(g, e) else '%s: pattern %r expected %r' % (where, g, e)
            return '%s: got %r expected %r' % (where, g, e)
        return None
    if isinstance(e, bool) or isinstance(g, bool):
        if bool(g) != bool(e) or isinstance(e, bool) != isinstance(g, bool):
            return '%s: got %r expected %r' % (where, g, e)
        return None
    if not isinstance(g, (int, float, Fraction)) or not isinstance(e, (int, float, Fraction)):
        return None if g == e else '%s: got %r expected %r' % (where, g, e)
    if abs(g - e) > 1e-9 * max(1, abs(e)):
        return '%s: got %r expected %r' % (where, g, e)
    return None


def _pattern_same(tp, text):
    """TimePattern object vs 'p1 or p2' text: compare denotations over the day."""
    alts = [a.strip() for a in text.split(' or ')]

    def den(p, h, m):
        hp, mp = p.split(':')
        hs = '%d' % h if len(hp) == 1 and hp != '*' else '%02d' % h
        ms = '%02d' % m

        def f(pat, s):
            if pat == '*':
                return True
            if len(pat) != len(s):
                return False
            return all(a == '*' or a == b for a, b in zip(pat, s))
        return (f(hp, '%d' % h) or f(hp, '%02d' % h)) and f(mp, ms)
    for h in range(24):
        for m in range(60):
            if bool(tp.match(h, m)) != any(den(a, h, m) for a in alts):
                return False
    return True
