#!/bin/bash
# Creates /verif/.venv: an overlay venv on /venv's Python 3.12 (so lifxlan and the
# repo's own dependencies are visible) plus z3-solver from the offline wheelhouse.
# Idempotent and file-locked; called by MANIFEST.setup_cmd and by ./check.
set -e
cd "$(dirname "$0")"
V=/verif/.venv
exec 9>/verif/.venv.lock
flock 9
if [ -x "$V/bin/python" ] && "$V/bin/python" -c 'import z3, lifxlan' 2>/dev/null; then
  exit 0
fi
rm -rf "$V"
/venv/bin/python -m venv "$V"
SP=$("$V/bin/python" -c 'import sysconfig; print(sysconfig.get_paths()["purelib"])')
printf "import site; site.addsitedir('/venv/lib/python3.12/site-packages')\n" > "$SP/_verif_overlay.pth"
PIP_NO_INDEX=1 "$V/bin/pip" install -q --no-index --find-links /opt/veriftools/wheels z3-solver >/dev/null
"$V/bin/python" -c 'import z3, lifxlan; print("verif venv ready: z3", z3.get_version_string())'
